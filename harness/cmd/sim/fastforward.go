package main

import (
	"encoding/json"
	"fmt"
	"os"

	hg "github.com/mosaicnetworks/babble/src/hashgraph"
	"verifharness/hx"
)

// fastForward (C13): node a resets itself from the anchor block + frame of a random honest peer,
// exactly as node.fastForward does (restore the application from the snapshot, core.fastForward,
// process the anchor block's receipts), then resumes gossip.
func (h *hist) fastForward(a *hx.Node) {
	w := h.w
	cands := []*hx.Node{}
	for _, b := range h.nodes {
		if b != a && !b.Silent && !b.PendingFF && b.Hg.AnchorBlock != nil {
			cands = append(cands, b)
		}
	}
	if len(cands) == 0 {
		a.FFTries++
		if a.FFTries > 20 { // nobody can serve: replay history instead (FastSync falls back to Babbling)
			a.PendingFF = false
		}
		return
	}
	b := cands[h.rng.Intn(len(cands))]
	block, frame, err := b.Core.GetAnchorBlockWithFrame()
	if err != nil {
		h.actions["ff-serve-error"]++
		return
	}
	// through the JSON transport
	var blk hg.Block
	var frm hg.Frame
	bb, _ := json.Marshal(block)
	fb, _ := json.Marshal(frame)
	if json.Unmarshal(bb, &blk) != nil || json.Unmarshal(fb, &frm) != nil {
		w.Violation("C15", "anchor-does-not-survive-json", fmt.Sprintf("server=%d", b.ID))
		return
	}
	// application snapshot = the server's state after the anchor block
	a.App.State = append([]byte{}, block.StateHash()...)
	if os.Getenv("VERIF_FFDEBUG") != "" {
		h0, _ := frame.Hash()
		h1, _ := frm.Hash()
		if fmt.Sprintf("%X", h0) != fmt.Sprintf("%X", block.FrameHash()) || fmt.Sprintf("%X", h1) != fmt.Sprintf("%X", h0) {
			m0, _ := frame.Marshal()
			m1, _ := frm.Marshal()
			for _, o := range h.nodes {
				if ob, _, ok := o.BlockAt(block.Index()); ok && o != b {
					if of, err := o.Store.GetFrame(ob.RoundReceived()); err == nil {
						oh, _ := of.Hash()
						if fmt.Sprintf("%X", oh) == fmt.Sprintf("%X", block.FrameHash()) {
							m1, _ = of.Marshal()
							break
						}
					}
				}
			}
			fmt.Fprintf(os.Stderr, "FFDEBUG server=%d block=%d serverFrameHash==blockFrameHash:%v roundtrip-preserves:%v\nBEFORE %s\nAFTER  %s\n",
				b.ID, block.Index(), fmt.Sprintf("%X", h0) == fmt.Sprintf("%X", block.FrameHash()), fmt.Sprintf("%X", h1) == fmt.Sprintf("%X", h0), m0, m1)
		}
	}
	if err := a.Core.FastForward(&blk, &frm); err != nil {
		w.Violation("C13", "honest-anchor-refused", fmt.Sprintf("node=%d server=%d block=%d err=%v", a.ID, b.ID, block.Index(), err))
		a.PendingFF = false
		return
	}
	if err := a.Core.ProcessAcceptedInternalTransactions(blk.RoundReceived(), blk.InternalTransactionReceipts()); err != nil {
		h.actions["ff-receipts-error"]++
	}
	a.PendingFF = false
	a.WasReset = true
	a.Base = blk.Index() + 1
	a.Faulty = true // Reset is not in the Coq model: the node is no longer compared with it
	fmt.Fprintf(w.Out, "F %d\n", a.ID)
	h.actions["fast-forwards"]++
	h.ffAnchorRR = append(h.ffAnchorRR, blk.RoundReceived())
	a.ResetKnown()
	h.after(a, false)
}


// validator-set history of a reset node vs full-history nodes (C13)
func (h *hist) resetPeerSetOracle(a *hx.Node) {
	if !a.WasReset {
		return
	}
	w := h.w
	mine, _ := a.Store.GetAllPeerSets()
	for _, o := range h.nodes {
		if o == a || o.WasReset {
			continue
		}
		theirs, _ := o.Store.GetAllPeerSets()
		for r, ps := range mine {
			if ops, ok := theirs[r]; ok {
				x, y := []int{}, []int{}
				for _, p := range ps {
					x = append(x, w.Ord(p.PubKeyHex))
				}
				for _, p := range ops {
					y = append(y, w.Ord(p.PubKeyHex))
				}
				if fmt.Sprint(x) != fmt.Sprint(y) {
					w.Violation("C13", "validator-set-history-differs", fmt.Sprintf("round=%d reset-node%d=%v full-node%d=%v", r, a.ID, x, o.ID, y))
					return
				}
			}
		}
	}
}

// roundDivergence (C13): a reset node assigns a different round / witness flag than a full-history
// node to an event it inserted after the reset. Root cause of the known finding "roots are not
// sufficient" (a parent-round witness the event must strongly see is not among the ROOT_DEPTH root
// events of the frame). Once seen, later block differences of that node are tagged as consequences.
func (h *hist) roundDivergence(a *hx.Node) {
	if !a.WasReset || a.RoundDiverged {
		return
	}
	w := h.w
	var full *hx.Node
	for _, o := range h.nodes {
		if o != a && !o.WasReset {
			full = o
			break
		}
	}
	if full == nil {
		return
	}
	for id, gev := range w.EvByEid {
		ev, err := a.Store.GetEvent(gev.Hex())
		if err != nil {
			continue
		}
		oe, err := full.Store.GetEvent(gev.Hex())
		if err != nil {
			continue
		}
		r, ok := ev.VerifRound()
		or, ok2 := oe.VerifRound()
		if ok && ok2 && or != r {
			a.RoundDiverged = true
			w.Violation("C13", "round-differs-after-reset", fmt.Sprintf("node=%d eid=%d reset-node-round=%d full-node%d-round=%d anchor-base=%d", a.ID, id, r, full.ID, or, a.Base))
			return
		}
	}
}
