package main

import (
	"fmt"

	"verifharness/hx"
)

// liveness (C06): fair all-pairs cycles among the non-silent nodes until every one of them is idle
// and has committed everything any of them accepted; V when not reached within maxCycles.
func (h *hist) liveness(maxCycles int) {
	w := h.w
	live := []*hx.Node{}
	for _, a := range h.nodes {
		if !a.Silent {
			live = append(live, a)
		}
	}
	if len(live) == 0 {
		return
	}
	// fairness needs more than two thirds of the CURRENT validators
	vals := live[0].Core.Validators().Len()
	if 3*len(live) <= 2*vals {
		h.actions["live-skipped-no-quorum"]++
		return
	}
	quiescent := func() (bool, string) {
		want := map[int]bool{}
		for _, a := range live {
			for _, s := range h.submitted[a.ID] {
				want[s] = true
			}
		}
		for _, a := range live {
			if a.Core.Busy() {
				return false, fmt.Sprintf("node %d busy (pending loaded events %d)", a.ID, a.Hg.PendingLoadedEvents)
			}
			if a.WasReset {
				// a node that fast-forwarded never delivers the blocks up to its anchor (the snapshot stands for
				// them): it is compared on the index of its last block
				if len(a.Final) == 0 || len(live[0].Final) == 0 || a.Store.LastBlockIndex() != live[0].Store.LastBlockIndex() {
					return false, fmt.Sprintf("fast-forwarded node %d is at block %d, node %d at block %d", a.ID, a.Store.LastBlockIndex(), live[0].ID, live[0].Store.LastBlockIndex())
				}
				continue
			}
			got := map[int]bool{}
			for _, b := range a.Final {
				for _, tx := range b.Transactions() {
					got[hx.TxSerialOf(tx)] = true
				}
			}
			for s := range want {
				if !got[s] {
					return false, fmt.Sprintf("node %d has not committed tx %d", a.ID, s)
				}
			}
			if len(a.Final) != len(live[0].Final) {
				return false, fmt.Sprintf("node %d delivered %d blocks, node %d delivered %d", a.ID, len(a.Final), live[0].ID, len(live[0].Final))
			}
		}
		return true, ""
	}
	cycles := 0
	why := ""
	for ; cycles < maxCycles; cycles++ {
		ok, reason := quiescent()
		why = reason
		if ok {
			break
		}
		if len(live) == 1 {
			// a node that is alone makes progress by monologue (node.monologue: self-event while busy)
			a := live[0]
			if a.Core.Busy() {
				a.Core.AddSelfEvent("")
				a.Core.ProcessSigPool()
				h.after(a, true)
			}
			continue
		}
		for _, a := range live {
			for _, b := range live {
				if a != b {
					h.pull(a, b, -1, false)
				}
			}
		}
	}
	if ok, _ := quiescent(); !ok {
		w.Violation("C06", "not-quiescent-after-fair-cycles", fmt.Sprintf("cycles=%d live=%d validators=%d reason=%s", cycles, len(live), vals, why))
	}
	h.actions["live-cycles"] += cycles
	if cycles > h.actions["live-max-cycles"] {
		h.actions["live-max-cycles"] = cycles
	}
}

// relagWake (C06 -relag): the validator that was silent from the start wakes up. It first receives a truncated
// sync (so that it holds loaded events -- index-0 events, events with transactions -- that it has not committed),
// then learns that it is too far behind and fast-forwards from a peer's anchor block, as node.fastForward does for
// a node in the CatchingUp state. The fair suffix follows: the node must catch up and everybody must go idle.
func (h *hist) relagWake() {
	a := h.relagVictim
	if a.WasReset || len(a.Final) > 0 {
		return
	}
	servers := []*hx.Node{}
	for _, b := range h.nodes {
		if b != a && !b.Silent && b.Hg.AnchorBlock != nil {
			servers = append(servers, b)
		}
	}
	if len(servers) == 0 {
		a.Silent = false
		h.actions["relag-no-anchor"]++
		return
	}
	a.Silent = false
	b := servers[h.rng.Intn(len(servers))]
	h.pull(a, b, 1+h.rng.Intn(8), false)
	if len(a.Final) > 0 {
		h.actions["relag-victim-delivered-before-reset"]++
		return
	}
	h.actions["relag-pending-loaded-before-reset"] += a.Hg.PendingLoadedEvents
	// the application keeps submitting while the node catches up (submissions are accepted in every state): what the
	// node accepted and has not yet put into an event must survive the fast-forward (C05)
	if h.rng.Intn(4) > 0 {
		h.submit(a)
	}
	poolBefore := fmt.Sprint(serials(a.Core.TransactionPool()))
	ipoolBefore, sigsBefore := a.Core.InternalTransactionPoolLen(), a.Core.SelfBlockSignaturesLen()
	a.PendingFF = true
	for tries := 0; a.PendingFF && tries < 25; tries++ {
		h.fastForward(a)
	}
	if a.WasReset {
		h.actions["relag-fast-forwards"]++
		h.actions["relag-pool-carried-over-reset"] += len(a.Core.TransactionPool())
		if after := fmt.Sprint(serials(a.Core.TransactionPool())); after != poolBefore {
			h.w.Violation("C05", "pool-changed-by-fast-forward", fmt.Sprintf("node=%d pool-before=%s pool-after=%s", a.ID, poolBefore, after))
		}
		if a.Core.InternalTransactionPoolLen() != ipoolBefore || a.Core.SelfBlockSignaturesLen() != sigsBefore {
			h.w.Violation("C05", "pending-requests-or-signatures-changed-by-fast-forward", fmt.Sprintf("node=%d internal-pool %d -> %d self-signatures %d -> %d",
				a.ID, ipoolBefore, a.Core.InternalTransactionPoolLen(), sigsBefore, a.Core.SelfBlockSignaturesLen()))
		}
		if h.rng.Intn(2) == 0 {
			// the first sync after the reset is truncated: when it carries no event of the peer, the node's first event
			// has no other-parent and gets a round below the reset's lower bound (it must still be received and committed)
			others := []*hx.Node{}
			for _, o := range h.nodes {
				if o != a && !o.Silent {
					others = append(others, o)
				}
			}
			h.pull(a, others[h.rng.Intn(len(others))], h.rng.Intn(3), false)
			h.actions["relag-truncated-first-sync"]++
			if ev, err := a.Store.GetEvent(a.Core.Head()); err == nil && ev.OtherParent() == "" && ev.Index() == 0 {
				h.actions["relag-first-event-without-parents"]++
				lb, hasLB := a.Hg.VerifRoundLowerBound()
				if r := ev.GetRound(); r != nil && hasLB && *r <= lb {
					r := *r
					h.actions["relag-first-event-at-or-below-lower-bound"]++
					if _, err := a.Store.GetRound(r); err != nil {
						h.actions["relag-first-event-in-a-round-missing-from-the-store"]++
					}
				}
			}
		}
	}
}

func serials(txs [][]byte) []int {
	l := []int{}
	for _, tx := range txs {
		l = append(l, hx.TxSerialOf(tx))
	}
	return l
}
