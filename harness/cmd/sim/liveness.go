package main

import (
	"fmt"

	"verifharness/hx"
)

// liveness (C06): fair all-pairs cycles among the non-silent nodes until every one of them is idle
// and has committed everything any of them accepted; V when not reached within maxCycles.
func (h *hist) liveness(maxCycles int) {
	w := h.w
	live := []*hx.Node{}
	for _, a := range h.nodes {
		if !a.Silent {
			live = append(live, a)
		}
	}
	if len(live) == 0 {
		return
	}
	// fairness needs more than two thirds of the CURRENT validators
	vals := live[0].Core.Validators().Len()
	if 3*len(live) <= 2*vals {
		h.actions["live-skipped-no-quorum"]++
		return
	}
	quiescent := func() (bool, string) {
		want := map[int]bool{}
		for _, a := range live {
			for _, s := range h.submitted[a.ID] {
				want[s] = true
			}
		}
		for _, a := range live {
			if a.Core.Busy() {
				return false, fmt.Sprintf("node %d busy", a.ID)
			}
			got := map[int]bool{}
			for _, b := range a.Final {
				for _, tx := range b.Transactions() {
					got[hx.TxSerialOf(tx)] = true
				}
			}
			for s := range want {
				if !got[s] {
					return false, fmt.Sprintf("node %d has not committed tx %d", a.ID, s)
				}
			}
			if len(a.Final) != len(live[0].Final) {
				return false, fmt.Sprintf("node %d delivered %d blocks, node %d delivered %d", a.ID, len(a.Final), live[0].ID, len(live[0].Final))
			}
		}
		return true, ""
	}
	cycles := 0
	why := ""
	for ; cycles < maxCycles; cycles++ {
		ok, reason := quiescent()
		why = reason
		if ok {
			break
		}
		if len(live) == 1 {
			// a node that is alone makes progress by monologue (node.monologue: self-event while busy)
			a := live[0]
			if a.Core.Busy() {
				a.Core.AddSelfEvent("")
				a.Core.ProcessSigPool()
				h.after(a, true)
			}
			continue
		}
		for _, a := range live {
			for _, b := range live {
				if a != b {
					h.pull(a, b, -1, false)
				}
			}
		}
	}
	if ok, _ := quiescent(); !ok {
		w.Violation("C06", "not-quiescent-after-fair-cycles", fmt.Sprintf("cycles=%d live=%d validators=%d reason=%s", cycles, len(live), vals, why))
	}
	h.actions["live-cycles"] += cycles
	if cycles > h.actions["live-max-cycles"] {
		h.actions["live-max-cycles"] = cycles
	}
}
