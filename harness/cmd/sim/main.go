// Command sim: deterministic multi-core gossip simulator over real node.core objects.
// It prints model inputs / implementation observations (see hx.AfterAction) and evaluates
// the cross-node oracles of C01, C02, C04, C05, C10 directly on the implementation.
package main

import (
	"bufio"
	"flag"
	"fmt"
	"math/rand"
	"os"
	"sort"
	"strings"

	hg "github.com/mosaicnetworks/babble/src/hashgraph"
	"github.com/mosaicnetworks/babble/src/peers"
	"verifharness/hx"
)

type simcfg struct {
	n           int
	steps       int
	dyn         bool
	fairTail    int
	cache       int
	faults      bool
	passFaults  bool
	advsigs     bool
	dagrun      bool
	badgerCache int
	ff          bool
	live        int
	relag       bool
	witness     bool
	thorough    bool
	split       bool // directed adversarial schedules (split.go)
	stall       int  // quorum loss for about this many events, then recovery (stall.go)
	latesigs    bool // late block signatures for old (evicted) blocks (stall.go)
	inmem0      int  // node 0 runs on an InmemStore with this small cache size and is not model-compared
	longSil     int  // one validator goes silent for good, the others create about this many more events (stall.go)
	appFaults   bool // -split: the application of a node fails one commit (hx.App.FailNext)
}

type hist struct {
	w           *hx.World
	nodes       []*hx.Node
	rng         *rand.Rand
	cfg         simcfg
	relagVictim *hx.Node     // C06 -relag: the validator that lags from the start
	stubborn    map[int]bool // removed validators that keep gossiping
	// statistics
	laggingDecisions int
	framesChecked    int             // C04 frameOracle: frames examined
	lamportPairs     int             // C04 frameOracle: (event, parent) timestamp pairs compared
	byzTime          map[string]bool // events whose claimed time comes from the adversary (C18)
	tsChecked        int
	blocks           int
	maxEvents        int
	actions          map[string]int
	submitted        map[int][]int // node -> tx serials accepted by that node
	sigsPrev         map[string]map[string]bool
	genesis          []int
	faults           map[int]*hx.FaultStore
	pendingJoins     map[int]bool // key ordinals with a join request in flight
	joined           map[int]bool
	leaving          map[int]bool
	nextNodeID       int
	weights          []float64
	c09              *c09state // C09 oracle / adversarial signature stream (oracles_c09.go, advsigs.go)
	witnessBatch     int
	tmpDirs          []string
	badger           *hg.BadgerStore
	ffAnchorRR       []int
	dist             *distStats   // distribution report (stats.go)
	forks            map[int]bool // eids of refused fork attempts (never part of the DAG)
	pst              *persistObs  // C02/C04 oracle state of the persistent small-cache node (stall.go)
	uncompared0      bool         // node 0 runs on a small cache (Badger or in-memory) and is not model-compared
	passArm          map[int]bool // -split -passfaults: nodes that may lose a consensus-pass write in the current episode
	forcedDiffers    int          // scratch counter of fameDistance (stats.go)
	voteTrace        *[]string    // debug: votes per round of the last fameDistance call
	appFailed        map[int]bool // -appfaults: nodes whose application failed a commit (their application state has diverged)
}

func (h *hist) pull(a, b *hx.Node, limit int, lose bool) {
	if a.PendingFF || b.PendingFF {
		return
	}
	known := a.Core.KnownEvents()
	diff, err := b.Core.EventDiff(known)
	if err != nil {
		h.actions["diff-error"]++
		return
	}
	if limit >= 0 && limit < len(diff) {
		diff = diff[:limit]
		h.actions["truncated"]++
	}
	wire, _ := b.Core.ToWire(diff)
	if lose {
		h.actions["lost"]++
		return
	}
	err = a.Core.Sync(b.Core.ValidatorID(), wire)
	if err != nil {
		h.actions["sync-error"]++
		if os.Getenv("VERIF_SYNCDEBUG") != "" {
			fmt.Fprintf(os.Stderr, "SYNCERR node=%d from=%d: %v\n", a.ID, b.ID, err)
		}
	}
	ran := false
	if err == nil || hg.IsNormalSelfParentError(err) {
		if perr := h.processSigPool(a); perr != nil {
			h.actions["sigpool-error"]++
		}
		ran = true
	}
	h.after(a, ran)
}

func (h *hist) after(a *hx.Node, sigPoolRan bool) {
	before := len(a.Final)
	if fs := h.faults[a.ID]; fs != nil && fs.PassInjected > 0 && !a.Faulty {
		// a write of ProcessDecidedRounds failed: the model has no such fault point, the node is no longer
		// compared with it; the implementation oracles (C02, C04, C05 committed-once) go on
		a.Faulty = true
		a.PassFaulty = true
		fmt.Fprintf(h.w.Out, "F %d\n", a.ID)
		h.actions["pass-fault-injected"]++
	}
	if len(a.App.FailedIdx) > 0 && !h.appFailed[a.ID] {
		// the application refused one block: the model has no such failure point and the node's state hashes differ
		// from everybody else's from here on (C01 does not apply to it); C02 / C04 / C05 still do
		h.appFailed[a.ID] = true
		h.actions["app-commit-failed"]++
		if !a.Faulty {
			a.Faulty = true
			fmt.Fprintf(h.w.Out, "F %d\n", a.ID)
		}
	}
	if fs := h.faults[a.ID]; fs != nil && fs.Injected > 0 && !a.Faulty {
		a.Faulty = true
		fmt.Fprintf(h.w.Out, "F %d\n", a.ID)
		h.actions["fault-injected"]++
	}
	a.AfterAction(sigPoolRan)
	if a.Tracked {
		h.actions["ff-model-compared-actions"]++ // a reset node's observables were printed for the model comparison
	}
	for _, nd := range h.nodes {
		h.roundDivergence(nd) // before any block comparison (see fastforward.go)
	}
	h.oracles(a, before)
	if !(h.uncompared0 && a.ID == 0) {
		// (on the small-cache persistent node a consensus pass can fail below the supported cache window,
		// after which the core is wedged; that configuration is outside C05's quantifier)
		h.conservation(a)
	}
	h.c09Oracle(a)
	h.observe(a)
	if h.badger != nil && a.ID == 0 {
		h.persistOracle(a)
	}
	if h.cfg.dyn {
		h.peerSetOracle(a)
		h.resetPeerSetOracle(a)
		h.membership(a)
	}
	if a.WasReset {
		// events inserted by a reset node are tracked explicitly
		for id, last := range a.Store.KnownEvents() {
			if p, ok := a.Store.RepertoireByID()[id]; ok {
				if hs, err := a.Store.ParticipantEvents(p.PubKeyString(), last-20); err == nil {
					for _, x := range hs {
						if ev, err := a.Store.GetEvent(x); err == nil {
							a.NoteInserted(ev)
						}
					}
				}
			}
		}
		h.roundDivergence(a)
	}
}

// membership: start the nodes whose join has become effective in a's table; stop leavers
func (h *hist) membership(a *hx.Node) {
	all, _ := a.Store.GetAllPeerSets()
	for r, ps := range all {
		for _, p := range ps {
			o := h.w.Ord(p.PubKeyHex)
			if h.pendingJoins[o] && !h.joined[o] {
				h.joined[o] = true
				cur := []int{}
				for _, q := range ps {
					cur = append(cur, h.w.Ord(q.PubKeyHex))
				}
				nd := h.w.NewNode(h.nextNodeID, o, cur, h.genesis, hg.NewInmemStore(h.cfg.cache))
				h.nextNodeID++
				nd.Core.SetAcceptedRound(r)
				nd.Core.SetHeadAndSeq()
				if h.cfg.ff && h.rng.Intn(2) == 0 {
					nd.PendingFF = true
				}
				h.nodes = append(h.nodes, nd)
				h.weights = append(h.weights, 1)
				h.actions["node-joined"]++
			}
		}
	}
	// a node whose own removal is effective and processed stops gossiping (it would suspend itself)
	if h.leaving[a.Self] && a.Core.RemovedRound() > 0 && a.Hg.LastConsensusRound != nil && *a.Hg.LastConsensusRound >= a.Core.RemovedRound() {
		// ... unless it is stubborn: one removed validator in two ignores its eviction and keeps creating and gossiping
		// events (validly signed, no equivocation); the others insert them, but they must never be witnesses again
		if h.stubborn == nil {
			h.stubborn = map[int]bool{}
		}
		if _, decided := h.stubborn[a.Self]; !decided {
			h.stubborn[a.Self] = h.rng.Intn(2) == 0
			if h.stubborn[a.Self] {
				h.actions["node-left-but-keeps-gossiping"]++
			}
		}
		if !a.Silent && !h.stubborn[a.Self] {
			a.Silent = true
			h.actions["node-left"]++
		}
	}
}

func (h *hist) requestJoin(a *hx.Node) {
	o := h.w.AddKey()
	p := h.w.Peers[o]
	// babble treats key strings case-insensitively (Peer.PubKeyString): one joiner in four spells its key in lower case
	spelled := p.PubKeyHex
	if h.rng.Intn(4) == 0 {
		spelled = strings.ToLower(spelled)
		h.actions["join-request-lower-case-key"]++
	}
	mk := func() hg.InternalTransaction {
		itx := hg.NewInternalTransactionJoin(*peers.NewPeer(spelled, p.NetAddr, p.Moniker))
		itx.Sign(h.w.Privs[o]) // ECDSA signatures are randomised: a second request has the same body and another signature
		return itx
	}
	itx := mk()
	refused := h.rng.Intn(5) == 0
	if refused {
		h.w.Refused[h.w.ItxID(&itx)] = true
		h.actions["join-refused-by-app"]++
	} else {
		h.pendingJoins[o] = true
	}
	a.Core.AddInternalTransaction(itx)
	h.actions["join-request"]++
	if h.rng.Intn(3) == 0 {
		// the joiner got no answer in time and asks again through another validator: the same request body under a fresh
		// signature travels in another validator's event, often with the same round-received (the second one finds the
		// peer already in the set, or pending)
		others := []*hx.Node{}
		for _, b := range h.nodes {
			if b != a && !b.Silent && !b.PendingFF {
				others = append(others, b)
			}
		}
		if len(others) > 0 {
			itx2 := mk()
			if refused {
				h.w.Refused[h.w.ItxID(&itx2)] = true
			}
			others[h.rng.Intn(len(others))].Core.AddInternalTransaction(itx2)
			h.actions["join-request-retried"]++
		}
	}
}

func (h *hist) requestLeave(a *hx.Node) {
	if h.leaving[a.Self] {
		return
	}
	p := h.w.Peers[a.Self]
	itx := hg.NewInternalTransactionLeave(*peers.NewPeer(p.PubKeyHex, p.NetAddr, p.Moniker))
	itx.Sign(h.w.Privs[a.Self])
	h.leaving[a.Self] = true
	a.Core.AddInternalTransaction(itx)
	h.actions["leave-request"]++
}

// oracles evaluated on the implementation after every action of node a
func (h *hist) oracles(a *hx.Node, before int) {
	w := h.w
	// C02: consecutive indexes, increasing round-received
	for k := before; k < len(a.Final); k++ {
		b := a.Final[k]
		if b.Index() != a.Base+k {
			w.Violation("C02", "non-consecutive-index", fmt.Sprintf("node=%d delivery=%d index=%d base=%d", a.ID, k, b.Index(), a.Base))
		}
		if k > 0 && b.RoundReceived() <= a.Final[k-1].RoundReceived() {
			w.Violation("C02", "round-received-not-increasing", fmt.Sprintf("node=%d index=%d", a.ID, k))
		}
		h.blocks++
	}
	// C02: every delivered block re-read from the store keeps its body; signatures only grow
	for k := 0; k < len(a.Final); k++ {
		b, err := a.Store.GetBlock(a.Base + k)
		if err != nil {
			w.Violation("C02", "delivered-block-unreadable", fmt.Sprintf("node=%d index=%d", a.ID, a.Base+k))
			continue
		}
		if s := a.BlockBodyStr(b, false); s != a.FinalBody[k] {
			w.Violation("C02", "delivered-block-changed", fmt.Sprintf("node=%d index=%d was=[%s] now=[%s]", a.ID, k, a.FinalBody[k], s))
		}
		key := fmt.Sprintf("%d/%d", a.ID, k)
		cur := map[string]bool{}
		for v, s := range b.Signatures {
			cur[v+"="+s] = true
		}
		for s := range h.sigsPrev[key] {
			if !cur[s] {
				w.Violation("C02", "signature-removed", fmt.Sprintf("node=%d index=%d", a.ID, k))
			}
		}
		h.sigsPrev[key] = cur
	}
	// C01 (and C13 for reset nodes): agreement with every other node on every block index both delivered
	for k := before; k < len(a.Final); k++ {
		idx := a.Base + k
		for _, o := range h.nodes {
			ob, obody, ok := o.BlockAt(idx)
			if o == a || !ok || h.appFailed[a.ID] || h.appFailed[o.ID] {
				continue
			}
			prop := "C01"
			if a.WasReset || o.WasReset {
				prop = "C13"
			}
			sfx := ""
			if a.RoundDiverged || o.RoundDiverged {
				sfx = "-after-round-divergence"
			}
			if obody != a.FinalBody[k] {
				w.Violation(prop, "blocks-differ"+sfx, fmt.Sprintf("index=%d node%d=[%s] node%d=[%s]", idx, a.ID, a.FinalBody[k], o.ID, obody))
			}
			fa, _ := a.Store.GetFrame(a.Final[k].RoundReceived())
			fo, _ := o.Store.GetFrame(ob.RoundReceived())
			if fa != nil && fo != nil {
				ha, _ := fa.Hash()
				ho, _ := fo.Hash()
				if fmt.Sprintf("%X", ha) != fmt.Sprintf("%X", ho) ||
					fmt.Sprintf("%X", a.Final[k].FrameHash()) != fmt.Sprintf("%X", ob.FrameHash()) ||
					fmt.Sprintf("%X", a.Final[k].PeersHash()) != fmt.Sprintf("%X", ob.PeersHash()) {
					w.Violation(prop, "frame-or-peers-hash-differ"+sfx, fmt.Sprintf("index=%d node%d node%d", idx, a.ID, o.ID))
				}
			}
		}
		// lagging decision: a delivered this block while missing events another node has
		ka := a.Core.KnownEvents()
		for _, o := range h.nodes {
			if o == a {
				continue
			}
			for id, last := range o.Core.KnownEvents() {
				if ka[id] < last {
					h.laggingDecisions++
					goto done
				}
			}
		}
	done:
	}
}

func (h *hist) submit(a *hx.Node) {
	k := 1 + h.rng.Intn(3)
	txs := [][]byte{}
	for i := 0; i < k; i++ {
		tx := h.w.NewTx(h.rng.Intn(4))
		txs = append(txs, tx)
		h.submitted[a.ID] = append(h.submitted[a.ID], hx.TxSerialOf(tx))
	}
	a.Core.AddTransactions(txs)
	fmt.Fprintf(h.w.Out, "T %d", a.ID)
	for _, tx := range txs {
		fmt.Fprintf(h.w.Out, " %d", hx.TxSerialOf(tx))
	}
	fmt.Fprintf(h.w.Out, "\n")
	h.actions["submit"]++
}

func runHistory(out *bufio.Writer, seed int64, hid int, cfg simcfg) (stats map[string]int, viol int) {
	rng := rand.New(rand.NewSource(seed))
	w := hx.NewWorld(out)
	h := &hist{w: w, rng: rng, cfg: cfg, actions: map[string]int{}, submitted: map[int][]int{}, sigsPrev: map[string]map[string]bool{},
		faults: map[int]*hx.FaultStore{}, byzTime: map[string]bool{}, pendingJoins: map[int]bool{}, joined: map[int]bool{}, leaving: map[int]bool{}, forks: map[int]bool{}, appFailed: map[int]bool{}}
	fmt.Fprintf(out, "H %d seed=%d n=%d steps=%d\n", hid, seed, cfg.n, cfg.steps)
	genesis := []int{}
	for i := 0; i < cfg.n; i++ {
		genesis = append(genesis, w.AddKey())
	}
	if cfg.advsigs {
		genesis = append(genesis, h.advInit()) // extra validator X, driven by the harness only
	}
	h.genesis = genesis
	h.nextNodeID = cfg.n
	for i := 0; i < cfg.n; i++ {
		var store hg.Store = hg.NewInmemStore(cfg.cache)
		if cfg.badgerCache > 0 && i == 0 {
			// node 0 on a persistent store with a small cache: old blocks and events live only on disk
			dir, _ := os.MkdirTemp("", "verif-sim-badger")
			h.tmpDirs = append(h.tmpDirs, dir)
			bs, err := hg.NewBadgerStore(cfg.badgerCache, dir, false, hx.QuietLogger())
			if err == nil {
				store = bs
				h.badger = bs
			}
		}
		if cfg.inmem0 > 0 && i == 0 && cfg.badgerCache == 0 {
			store = hg.NewInmemStore(cfg.inmem0)
		}
		if cfg.faults {
			fs := &hx.FaultStore{Store: store}
			h.faults[i] = fs
			store = fs
		}
		nd := w.NewNode(i, i, genesis, genesis, store)
		h.nodes = append(h.nodes, nd)
	}
	if h.badger == nil && cfg.inmem0 > 0 {
		// small in-memory cache: every read of the harness would refresh the LRU, so this node is only
		// driven and observed through its deliveries (not compared with the model, no store dumps)
		h.uncompared0 = true
		h.nodes[0].Faulty = true
		h.nodes[0].NoDump = true
		fmt.Fprintf(out, "F 0\n")
	}
	if h.badger != nil {
		h.uncompared0 = true
		h.nodes[0].Faulty = true
		h.nodes[0].NoDump = cfg.stall > 0 || cfg.latesigs // every dump would re-read all evicted events from the database
		fmt.Fprintf(out, "F 0\n")
	}
	defer func() {
		if h.badger != nil {
			h.badger.Close()
		}
		for _, d := range h.tmpDirs {
			os.RemoveAll(d)
		}
	}()
	// some nodes create their first event on their own (monologue), others on their first sync
	for _, nd := range h.nodes {
		if cfg.n == 1 || rng.Intn(2) == 0 {
			nd.Core.AddSelfEvent("")
			h.after(nd, false)
		}
	}
	h.weights = make([]float64, cfg.n)
	for i := range h.weights {
		h.weights[i] = []float64{1, 1, 0.3, 0.08}[rng.Intn(4)]
	}
	pick := func() int {
		weights := h.weights
		tot := 0.0
		for i, x := range weights {
			if !h.nodes[i].Silent {
				tot += x
			}
		}
		r := rng.Float64() * tot
		for i, x := range weights {
			if h.nodes[i].Silent {
				continue
			}
			if r < x {
				return i
			}
			r -= x
		}
		return 0
	}
	truncRate := []float64{0, 0.1, 0.5}[rng.Intn(3)]
	loseRate := []float64{0, 0.05, 0.2}[rng.Intn(3)]
	submitRate := []float64{0.1, 0.25, 0.5}[rng.Intn(3)]
	silentAt := -1
	maxSilent := (cfg.n - 1) / 3
	if cfg.relag && cfg.n >= 4 {
		// C06: one validator lags from the start (it is the silent minority of this history); before the fair
		// suffix it wakes up, receives a truncated sync and fast-forwards (liveness.go: relagWake)
		h.relagVictim = h.nodes[1+rng.Intn(cfg.n-1)]
		h.relagVictim.Silent = true
		maxSilent = 0
	}
	if maxSilent > 0 && rng.Intn(2) == 0 {
		silentAt = rng.Intn(cfg.steps)
	}
	if cfg.split {
		h.splitSchedule()
	}
	if cfg.stall > 0 || cfg.latesigs {
		h.stallSchedule()
	}
	if cfg.longSil > 0 {
		h.longSilentSchedule()
	}
	for step := 0; step < cfg.steps && !cfg.split && cfg.stall == 0 && !cfg.latesigs && cfg.longSil == 0; step++ {
		if step == silentAt {
			k := 1 + rng.Intn(maxSilent)
			for _, i := range rng.Perm(cfg.n)[:k] {
				h.nodes[i].Silent = true
			}
			h.actions["silenced"] += k
		}
		if cfg.advsigs && rng.Intn(3) == 0 {
			h.advStep()
		}
		a := h.nodes[pick()]
		if a.PendingFF {
			h.fastForward(a)
			continue
		}
		if cfg.dyn && rng.Intn(40) == 0 {
			live := 0
			for _, nd := range h.nodes {
				if !nd.Silent && !h.leaving[nd.Self] {
					live++
				}
			}
			if rng.Intn(3) > 0 || live <= 2 {
				h.requestJoin(a)
			} else {
				h.requestLeave(a)
			}
			continue
		}
		if fs := h.faults[a.ID]; fs != nil && rng.Intn(25) == 0 {
			fs.FailNewEventIn = 1 + rng.Intn(4)
		}
		if fs := h.faults[a.ID]; fs != nil && cfg.passFaults && rng.Intn(30) == 0 {
			fs.FailPassWriteIn = 1 + rng.Intn(8)
		}
		if rng.Float64() < submitRate {
			h.submit(a)
			if cfg.n == 1 {
				a.Core.AddSelfEvent("")
				h.processSigPool(a)
				h.after(a, true)
			}
			continue
		}
		if cfg.n == 1 {
			if a.Core.Busy() {
				a.Core.AddSelfEvent("")
				h.processSigPool(a)
				h.after(a, true)
			}
			continue
		}
		bi := pick()
		for tries := 0; h.nodes[bi] == a && tries < 50; tries++ {
			bi = pick()
		}
		if h.nodes[bi] == a {
			continue
		}
		b := h.nodes[bi]
		limit := -1
		if rng.Float64() < truncRate {
			limit = rng.Intn(6)
		}
		h.pull(a, b, limit, rng.Float64() < loseRate)
		h.actions["pull"]++
		if rng.Intn(3) == 0 { // push: the reverse direction right away (gossip = pull then push)
			h.pull(b, a, -1, false)
			h.actions["push"]++
		}
	}
	// fair tail among the non-silent nodes
	for c := 0; c < cfg.fairTail; c++ {
		for _, a := range h.nodes {
			for _, b := range h.nodes {
				if a != b && !a.Silent && !b.Silent {
					h.pull(a, b, -1, false)
				}
			}
		}
	}
	if cfg.live > 0 {
		if h.relagVictim != nil {
			h.relagWake()
		}
		h.liveness(cfg.live)
	}
	h.finalOracles()
	if cfg.dagrun {
		h.dagrun(cfg.thorough)
	}
	if cfg.witness {
		h.findBatchWitness()
	}
	ev := 0
	for _, nd := range h.nodes {
		n := 0
		for _, last := range nd.Core.KnownEvents() {
			n += last + 1
		}
		if n > ev {
			ev = n
		}
	}
	st := map[string]int{"lagging": h.laggingDecisions, "blocks": h.blocks, "events": ev, "n": cfg.n, "frames": h.framesChecked, "ltpairs": h.lamportPairs, "tschecked": h.tsChecked}
	for k, v := range h.actions {
		st["a:"+k] = v
	}
	h.distInto(st)
	keys := []string{}
	for k := range st {
		keys = append(keys, k)
	}
	sort.Strings(keys)
	s := []string{}
	for _, k := range keys {
		s = append(s, fmt.Sprintf("%s=%d", k, st[k]))
	}
	fmt.Fprintf(out, "Z %d %s\n", hid, strings.Join(s, " "))
	return st, w.Violations
}

func main() {
	seed := flag.Int64("seed", 1, "seed")
	nh := flag.Int("hist", 10, "number of histories")
	maxn := flag.Int("maxn", 5, "max validators")
	steps := flag.Int("steps", 120, "random actions per history")
	tail := flag.Int("tail", 2, "fair all-pairs cycles at the end")
	cache := flag.Int("cache", 10000, "store cache size")
	dyn := flag.Bool("dyn", false, "joins and leaves")
	faults := flag.Bool("faults", false, "inject store failures on new-event writes")
	passFaults := flag.Bool("passfaults", false, "with -faults: also fail writes of ProcessDecidedRounds (SetFrame, SetBlock, AddConsensusEvent)")
	advsigs := flag.Bool("advsigs", false, "extra harness-driven validator gossiping adversarial block signatures (C09)")
	dagrun := flag.Bool("dagrun", false, "C03: re-feed the global DAG under orders / cuts / stores / batchings")
	thorough := flag.Bool("thorough", false, "more variants")
	badgerCache := flag.Int("badgercache", 0, "node 0 uses a BadgerStore with this (small) cache size and is not compared with the model")
	ff := flag.Bool("ff", false, "C13: half of the joiners start by fast-forwarding from a peer's anchor instead of replaying history")
	relag := flag.Bool("relag", false, "C06 (with -live): one validator lags from the start, then wakes up, syncs a few events and fast-forwards before the fair suffix")
	live := flag.Int("live", 0, "C06: after the adversarial prefix run fair all-pairs cycles until quiescence, at most this many")
	witness := flag.Bool("c03witness", false, "search a minimal batching witness")
	split := flag.Bool("split", false, "directed adversarial schedules: split votes up to the coin round, late witnesses, monologues, delayed delivery, refused forks")
	stall := flag.Int("stall", 0, "stall-then-resume schedule: after a warm-up fewer than a super-majority of validators gossip for about this many events, then everybody again")
	latesigs := flag.Bool("latesigs", false, "with -badgercache: block signatures for old blocks (evicted from the block cache) are delivered late")
	minn := flag.Int("minn", 0, "minimum number of validators (0: the default mix)")
	appFaults := flag.Bool("appfaults", false, "with -split: the application of one node per episode fails one commit callback")
	inmem0 := flag.Int("inmemcache0", 0, "node 0 uses an InmemStore with this (small) cache size and is not compared with the model")
	longSil := flag.Int("longsilent", 0, "a minority goes silent for good after a warm-up, the others create about this many more events (use with -live)")
	flag.Parse()
	out := bufio.NewWriterSize(os.Stdout, 1<<20)
	defer out.Flush()
	master := rand.New(rand.NewSource(*seed))
	for i := 0; i < *nh; i++ {
		n := 1 + master.Intn(*maxn)
		if i%7 != 0 && n < 3 && *maxn >= 3 {
			n = 3 + master.Intn(*maxn-2)
		}
		if *minn > 0 && n < *minn {
			n = *minn + master.Intn(*maxn-*minn+1)
		}
		cfg := simcfg{appFaults: *appFaults, inmem0: *inmem0, longSil: *longSil, split: *split, stall: *stall, latesigs: *latesigs, n: n, steps: *steps/2 + master.Intn(*steps), dyn: *dyn, fairTail: *tail, cache: *cache, faults: *faults, passFaults: *passFaults, advsigs: *advsigs, dagrun: *dagrun, thorough: *thorough, badgerCache: *badgerCache, ff: *ff, live: *live, relag: *relag, witness: *witness}
		runHistory(out, master.Int63(), i, cfg)
	}
}
