package main

// finalOracles: end-of-history checks (extended per property).
func (h *hist) finalOracles() {
}
