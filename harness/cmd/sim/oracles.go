package main

import (
	"fmt"
	"os"
	"sort"
	"strings"

	hg "github.com/mosaicnetworks/babble/src/hashgraph"
	"github.com/mosaicnetworks/babble/src/peers"
	"verifharness/hx"
)

// C05: conservation of the transactions accepted by node a:
// submitted (in order) == payload of a's own events (by index) ++ pool.
func (h *hist) conservation(a *hx.Node) {
	w := h.w
	own := []int{}
	p := w.Peers[a.Self]
	hs, err := a.Store.ParticipantEvents(p.PubKeyString(), -1)
	if err == nil {
		for _, x := range hs {
			ev, err := a.Store.GetEvent(x)
			if err != nil {
				continue
			}
			for _, tx := range ev.Transactions() {
				own = append(own, hx.TxSerialOf(tx))
			}
		}
	}
	for _, tx := range a.Core.TransactionPool() {
		own = append(own, hx.TxSerialOf(tx))
	}
	sub := h.submitted[a.ID]
	if os.Getenv("VERIF_C05DEBUG") != "" && fmt.Sprint(own) != fmt.Sprint(sub) {
		fmt.Fprintf(os.Stderr, "C05DEBUG node=%d\n sub=%v\n own=%v\n", a.ID, sub, own)
	}
	if fmt.Sprint(own) != fmt.Sprint(sub) {
		w.Violation("C05", "accepted-transactions-not-conserved",
			fmt.Sprintf("node=%d submitted=%v events+pool=%v", a.ID, tail(sub), tail(own)))
	}
}

func tail(l []int) []int {
	if len(l) > 12 {
		return l[len(l)-12:]
	}
	return l
}

// committed event sequence of a node: frames of all processed rounds, in order
func (h *hist) committedEvents(a *hx.Node) (seq []int, ok bool) {
	if a.Hg.LastConsensusRound == nil {
		return nil, true
	}
	first := 0
	if a.Hg.FirstConsensusRound != nil {
		first = *a.Hg.FirstConsensusRound
	}
	for r := first; r <= *a.Hg.LastConsensusRound; r++ {
		f, err := a.Store.GetFrame(r)
		if err != nil {
			continue // a round that was never queued (e.g. below the first consensus round)
		}
		for _, fe := range f.Events {
			seq = append(seq, h.w.Eid(fe.Core.Hex()))
		}
	}
	return seq, true
}

// C04 / C05: committed order extends ancestry; events whole and once; block payload = frame payload;
// every committed transaction was submitted and is committed once.
func (h *hist) orderOracle(a *hx.Node) {
	w := h.w
	seq, _ := h.committedEvents(a)
	pos := map[int]int{}
	for i, e := range seq {
		if _, dup := pos[e]; dup {
			w.Violation("C04", "event-committed-twice", fmt.Sprintf("node=%d eid=%d", a.ID, e))
		}
		pos[e] = i
	}
	reset := a.Hg.FirstConsensusRound != nil && *a.Hg.FirstConsensusRound > 0 && a.WasReset
	for _, e := range seq {
		ev := w.EvByEid[e]
		for _, ph := range []string{ev.SelfParent(), ev.OtherParent()} {
			if ph == "" {
				continue
			}
			pe := w.Eid(ph)
			pp, committed := pos[pe]
			if !committed {
				if !reset {
					w.Violation("C04", "committed-before-its-parent", fmt.Sprintf("node=%d eid=%d parent=%d (parent not committed)", a.ID, e, pe))
				}
				continue
			}
			if pp >= pos[e] {
				w.Violation("C04", "committed-before-its-parent", fmt.Sprintf("node=%d eid=%d pos=%d parent=%d pos=%d", a.ID, e, pos[e], pe, pp))
			}
		}
	}
	// block payload = concatenation of the frame events' payloads
	seen := map[int]int{}
	inBlock := map[int]int{}
	for k, b := range a.Final {
		f, err := a.Store.GetFrame(b.RoundReceived())
		if err != nil {
			w.Violation("C04", "frame-of-block-missing", fmt.Sprintf("node=%d block=%d", a.ID, k))
			continue
		}
		want := []int{}
		wantItx := 0
		for _, fe := range f.Events {
			// an event is delivered in at most one block
			eid := w.Eid(fe.Core.Hex())
			if pb, dup := inBlock[eid]; dup {
				w.Violation("C04", "event-committed-twice", fmt.Sprintf("node=%d eid=%d blocks=%d,%d", a.ID, eid, pb, k))
			}
			inBlock[eid] = k
			for _, tx := range fe.Core.Transactions() {
				want = append(want, hx.TxSerialOf(tx))
			}
			wantItx += len(fe.Core.InternalTransactions())
		}
		got := []int{}
		for _, tx := range b.Transactions() {
			got = append(got, hx.TxSerialOf(tx))
		}
		if fmt.Sprint(got) != fmt.Sprint(want) || wantItx != len(b.InternalTransactions()) {
			w.Violation("C04", "block-payload-is-not-frame-payload", fmt.Sprintf("node=%d block=%d got=%v want=%v", a.ID, k, tail(got), tail(want)))
		}
		for _, s := range got {
			if s < 1 || s > w.TxSerial {
				w.Violation("C05", "committed-transaction-never-submitted", fmt.Sprintf("node=%d block=%d serial=%d", a.ID, k, s))
			}
			if prev, dup := seen[s]; dup {
				w.Violation("C05", "transaction-committed-twice", fmt.Sprintf("node=%d serial=%d blocks=%d,%d", a.ID, s, prev, k))
			}
			seen[s] = k
		}
	}
}

// C04 (frames): the frame of a processed round r lists exactly the stored events whose
// round-received is r (so a late-arriving event never lands in a round that was already
// committed), each once; the frame is sorted by Lamport timestamp and carries the stored events'
// timestamps and the payload the creator put in the event; a stored event's Lamport timestamp is
// 1 + the maximum of its parents' (strictly greater than each parent's).
func (h *hist) frameOracle(a *hx.Node) {
	w := h.w
	first, last := 0, -1
	if a.Hg.FirstConsensusRound != nil {
		first = *a.Hg.FirstConsensusRound
	}
	if a.Hg.LastConsensusRound != nil {
		last = *a.Hg.LastConsensusRound
	}
	inFrame := map[int]int{} // eid -> round of the frame listing it
	for r := first; r <= last; r++ {
		f, err := a.Store.GetFrame(r)
		if err != nil {
			continue
		}
		h.framesChecked++
		// the received list of the round: no repetition, same events as the frame
		if ri, rerr := a.Store.GetRound(r); rerr == nil {
			seenRcv := map[string]bool{}
			for _, x := range ri.ReceivedEvents {
				if seenRcv[x] {
					w.Violation("C04", "received-list-repeats-an-event", fmt.Sprintf("node=%d round=%d eid=%d", a.ID, r, w.Eid(x)))
				}
				seenRcv[x] = true
			}
			inF := map[string]bool{}
			for _, fe := range f.Events {
				inF[fe.Core.Hex()] = true
			}
			if !a.WasReset {
				for x := range seenRcv {
					if !inF[x] {
						w.Violation("C04", "received-event-missing-from-frame", fmt.Sprintf("node=%d eid=%d rr=%d (listed in the round, absent from its frame)", a.ID, w.Eid(x), r))
					}
				}
				for x := range inF {
					if !seenRcv[x] {
						w.Violation("C04", "frame-event-not-in-received-list", fmt.Sprintf("node=%d eid=%d round=%d", a.ID, w.Eid(x), r))
					}
				}
			}
		}
		for i, fe := range f.Events {
			eid := w.Eid(fe.Core.Hex())
			if pr, dup := inFrame[eid]; dup {
				w.Violation("C04", "event-in-two-frames", fmt.Sprintf("node=%d eid=%d rounds=%d,%d", a.ID, eid, pr, r))
			}
			inFrame[eid] = r
			if i > 0 && fe.LamportTimestamp < f.Events[i-1].LamportTimestamp {
				w.Violation("C04", "frame-not-sorted-by-lamport", fmt.Sprintf("node=%d round=%d pos=%d", a.ID, r, i))
			}
			if eid >= 0 && eid < len(w.EvByEid) {
				want, got := []int{}, []int{}
				for _, tx := range w.EvByEid[eid].Transactions() {
					want = append(want, hx.TxSerialOf(tx))
				}
				for _, tx := range fe.Core.Transactions() {
					got = append(got, hx.TxSerialOf(tx))
				}
				if fmt.Sprint(got) != fmt.Sprint(want) || len(fe.Core.InternalTransactions()) != len(w.EvByEid[eid].InternalTransactions()) {
					w.Violation("C04", "frame-event-payload-differs-from-created", fmt.Sprintf("node=%d round=%d eid=%d got=%v want=%v", a.ID, r, eid, tail(got), tail(want)))
				}
			}
			se, err := a.Store.GetEvent(fe.Core.Hex())
			if err != nil {
				continue // evicted from a small cache
			}
			if rr, ok := se.VerifRoundReceived(); ok && rr != r {
				w.Violation("C04", "frame-event-round-received-mismatch", fmt.Sprintf("node=%d round=%d eid=%d rr=%d", a.ID, r, eid, rr))
			}
			if lt, ok := se.VerifLamport(); ok && lt != fe.LamportTimestamp {
				w.Violation("C04", "frame-lamport-differs-from-event", fmt.Sprintf("node=%d round=%d eid=%d frame=%d event=%d", a.ID, r, eid, fe.LamportTimestamp, lt))
			}
		}
	}
	for eid, ev := range w.EvByEid {
		se, err := a.Store.GetEvent(ev.Hex())
		if err != nil {
			continue
		}
		if rr, ok := se.VerifRoundReceived(); ok && rr >= first && rr <= last {
			if fr, in := inFrame[eid]; !in || fr != rr {
				if _, ferr := a.Store.GetFrame(rr); ferr == nil || !a.WasReset {
					w.Violation("C04", "received-event-missing-from-frame", fmt.Sprintf("node=%d eid=%d rr=%d last-consensus=%d", a.ID, eid, rr, last))
				}
			}
		}
		lt, ok := se.VerifLamport()
		if !ok {
			continue
		}
		max, complete := -1, true
		for _, ph := range []string{se.SelfParent(), se.OtherParent()} {
			if ph == "" {
				continue
			}
			pe, err := a.Store.GetEvent(ph)
			if err != nil {
				complete = false
				continue
			}
			plt, pok := pe.VerifLamport()
			if !pok {
				complete = false
				continue
			}
			h.lamportPairs++
			if plt >= lt {
				w.Violation("C04", "lamport-not-above-parent", fmt.Sprintf("node=%d eid=%d lt=%d parent=%d lt=%d", a.ID, eid, lt, w.Eid(ph), plt))
			}
			if plt > max {
				max = plt
			}
		}
		if complete && !a.WasReset && lt != max+1 {
			w.Violation("C04", "lamport-not-one-plus-max-of-parents", fmt.Sprintf("node=%d eid=%d lt=%d max-parent=%d", a.ID, eid, lt, max))
		}
	}
}

// C10: the store's validator-set table equals the replay of the node's own delivered blocks.
func (h *hist) peerSetOracle(a *hx.Node) {
	w := h.w
	type entry struct {
		r  int
		ps []int
	}
	cur := append([]int{}, h.genesis...)
	table := map[int][]int{0: append([]int{}, cur...)}
	base := 0
	if a.WasReset {
		return // a reset node starts from the frame's table: checked by C13
	}
	for _, b := range a.Final[base:] {
		changed := false
		for _, r := range b.InternalTransactionReceipts() {
			if !r.Accepted {
				continue
			}
			o := w.Ord(r.InternalTransaction.Body.Peer.PubKeyHex)
			if r.InternalTransaction.Body.Type == hg.PEER_ADD {
				found := false
				for _, x := range cur {
					if x == o {
						found = true
					}
				}
				if !found {
					cur = append(append([]int{}, cur...), o)
				}
			} else {
				nc := []int{}
				for _, x := range cur {
					if x != o {
						nc = append(nc, x)
					}
				}
				cur = nc
			}
			changed = true
		}
		if changed {
			if _, exists := table[b.RoundReceived()+6]; !exists {
				table[b.RoundReceived()+6] = append([]int{}, cur...)
			}
		}
	}
	// measured coverage of this oracle (Z line): evaluations, blocks replayed, largest table seen
	h.actions["c10-evaluations"]++
	h.actions["c10-blocks-replayed"] += len(a.Final)
	if len(table) > h.actions["c10-max-table-entries"] {
		h.actions["c10-max-table-entries"] = len(table)
	}
	all, _ := a.Store.GetAllPeerSets()
	got := map[int][]int{}
	for r, ps := range all {
		l := []int{}
		for _, p := range ps {
			l = append(l, w.Ord(p.PubKeyHex))
		}
		got[r] = l
	}
	if tableStr(got) != tableStr(table) {
		w.Violation("C10", "validator-set-table-is-not-replay-of-blocks", fmt.Sprintf("node=%d store=[%s] replay=[%s]", a.ID, tableStr(got), tableStr(table)))
	}
	// lookup rule and peers hash of every delivered block
	for k, b := range a.Final {
		ps, err := a.Store.GetPeerSet(b.RoundReceived())
		if err != nil {
			continue
		}
		want := lookup(table, b.RoundReceived())
		l := []int{}
		for _, p := range ps.Peers {
			l = append(l, w.Ord(p.PubKeyHex))
		}
		if fmt.Sprint(l) != fmt.Sprint(want) {
			w.Violation("C10", "lookup-differs-from-replay", fmt.Sprintf("node=%d round=%d got=%v want=%v", a.ID, b.RoundReceived(), l, want))
		}
		wantPeers := []*peers.Peer{}
		for _, o := range want {
			wantPeers = append(wantPeers, w.Peers[o])
		}
		hsh, _ := peers.NewPeerSet(wantPeers).Hash()
		if fmt.Sprintf("%X", hsh) != fmt.Sprintf("%X", b.PeersHash()) {
			w.Violation("C10", "block-peers-hash-is-not-hash-of-effective-set", fmt.Sprintf("node=%d block=%d", a.ID, k))
		}
	}
}

// witnessMembership (C10): only peers in a round's validator set can be witnesses of that round (hence be voters,
// be counted in its quorums, become famous and feed the block timestamp). Evaluated on the rounds still in the store.
func (h *hist) witnessMembership(a *hx.Node) {
	w := h.w
	first := 0
	if a.Hg.FirstConsensusRound != nil {
		first = *a.Hg.FirstConsensusRound
	}
	for r := first; r <= a.Store.LastRound(); r++ {
		ri, err := a.Store.GetRound(r)
		if err != nil {
			continue
		}
		ps, err := a.Store.GetPeerSet(r)
		if err != nil {
			continue
		}
		for _, x := range ri.Witnesses() {
			ev, err := a.Store.GetEvent(x)
			if err != nil {
				continue
			}
			h.actions["c10-witness-membership-checked"]++
			if _, ok := ps.ByPubKey[ev.Creator()]; !ok {
				w.Violation("C10", "witness-outside-the-round-validator-set", fmt.Sprintf("node=%d round=%d eid=%d creator=%d", a.ID, r, w.Eid(x), w.Ord(ev.Creator())))
				return
			}
		}
	}
}

func lookup(table map[int][]int, r int) []int {
	best := -1
	for k := range table {
		if k <= r && k > best {
			best = k
		}
	}
	return table[best]
}

func tableStr(t map[int][]int) string {
	rs := []int{}
	for r := range t {
		rs = append(rs, r)
	}
	sort.Ints(rs)
	s := []string{}
	for _, r := range rs {
		s = append(s, fmt.Sprintf("%d=%v", r, t[r]))
	}
	return strings.Join(s, " ")
}

// C18 end to end: the timestamp of every delivered block is the median (common.Median's rule, recomputed here
// independently) of the claimed times of the famous witnesses of its round-received, and lies within the range of the
// honest famous witnesses' times when fewer than half of them carry an adversary's timestamp.
func (h *hist) timestampOracle(a *hx.Node) {
	w := h.w
	for k, b := range a.Final {
		ri, err := a.Store.GetRound(b.RoundReceived())
		if err != nil {
			continue // round info of an old round is cache-only on a small-cache node
		}
		all, hon := []int64{}, []int64{}
		complete := true
		members, _ := a.Store.GetPeerSet(b.RoundReceived())
		for _, x := range ri.FamousWitnesses() {
			ev, gerr := a.Store.GetEvent(x)
			if gerr != nil {
				complete = false
				break
			}
			if members != nil {
				if _, ok := members.ByPubKey[ev.Creator()]; !ok {
					// the sample is the claimed times of the famous witnesses OF THE ROUND'S VALIDATORS
					w.Violation("C18", "timestamp-sample-contains-a-non-validator", fmt.Sprintf("node=%d block=%d round=%d eid=%d creator=%d", a.ID, a.Base+k, b.RoundReceived(), w.Eid(x), w.Ord(ev.Creator())))
					continue
				}
			}
			t := ev.Body.Timestamp
			all = append(all, t)
			if !h.byzTime[x] {
				hon = append(hon, t)
			}
		}
		if !complete || len(all) == 0 {
			continue
		}
		h.tsChecked++
		sorted := append([]int64{}, all...)
		sort.Slice(sorted, func(i, j int) bool { return sorted[i] < sorted[j] })
		var want int64
		if n := len(sorted); n%2 == 1 {
			want = sorted[n/2]
		} else {
			want = (sorted[n/2-1] + sorted[n/2]) / 2 // int64 arithmetic as in common.Median (wraps on overflow)
		}
		if b.Timestamp() != want {
			w.Violation("C18", "block-timestamp-is-not-median-of-famous-witnesses", fmt.Sprintf("node=%d block=%d round=%d timestamp=%d median=%d sample=%v", a.ID, a.Base+k, b.RoundReceived(), b.Timestamp(), want, all))
		}
		if nb := len(all) - len(hon); len(hon) > 0 && 2*nb < len(all) {
			lo, hi := hon[0], hon[0]
			for _, t := range hon {
				if t < lo {
					lo = t
				}
				if t > hi {
					hi = t
				}
			}
			if b.Timestamp() < lo || b.Timestamp() > hi {
				w.Violation("C18", "block-timestamp-outside-honest-range", fmt.Sprintf("node=%d block=%d timestamp=%d honest=[%d,%d] byzantine=%d of %d", a.ID, a.Base+k, b.Timestamp(), lo, hi, nb, len(all)))
			}
			if nb > 0 {
				h.actions["c18-blocks-with-byzantine-famous-witness"]++
			}
		}
	}
}

// finalOracles: end-of-history checks.
func (h *hist) finalOracles() {
	for _, a := range h.nodes {
		if a.Core != nil || a.Hg != nil {
			h.timestampOracle(a)
		}
		if h.uncompared0 && a.ID == 0 {
			continue // frames of old rounds are cache-only on the small-cache node (documented W4)
		}
		h.orderOracle(a)
		if !a.Faulty {
			h.frameOracle(a)
		}
		h.peerSetOracle(a)
		h.witnessMembership(a)
		if !a.Faulty {
			h.conservation(a)
		}
	}
	if h.cfg.dyn {
		for _, a := range h.nodes {
			h.c10DirectProbe(a)
		}
	}
}
