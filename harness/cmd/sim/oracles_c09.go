package main

// C09 oracle: block signatures and the fast-sync anchor, evaluated directly on the
// implementation (Store / Hashgraph / core of every node) after every action. It does not
// use the Coq model: signatures are verified with keys.Verify against the node's own block
// body hash, membership is looked up in the node's Store AND in the harness' own replay of the
// node's delivered blocks.

import (
	"fmt"
	"runtime"
	"sort"
	"strings"

	"github.com/mosaicnetworks/babble/src/crypto/keys"
	hg "github.com/mosaicnetworks/babble/src/hashgraph"
	"verifharness/hx"
)

// one adversarial signature entry that was put into an accepted event
type advSig struct {
	kind       string
	recordable bool // ground truth: valid signature of a validator of the block's round
	ord, index int
	sig        string
}

type c09state struct {
	verifyCache map[string]bool
	anchorPrev  map[int]int            // node id -> last anchor index seen (absent: none)
	delivHash   map[int]map[int][]byte // node id -> block index -> body hash when delivered
	delivSeen   map[int]int            // node id -> number of entries of Final already hashed
	ownChecked  map[int]int            // node id -> number of own events whose payload was checked
	reported    map[string]bool        // violation de-duplication
	sent        map[string]*advSig     // (ord/index/sig) -> adversarial entry
	recSeen     map[string]bool        // adversarial entries already counted as recorded
	advs        []*adversary
	advKeys     map[int]*adversary
	panicSeen   bool
	errSeen     bool
}

func (h *hist) c9() *c09state {
	if h.c09 == nil {
		h.c09 = &c09state{verifyCache: map[string]bool{}, anchorPrev: map[int]int{}, delivHash: map[int]map[int][]byte{},
			delivSeen: map[int]int{}, ownChecked: map[int]int{}, reported: map[string]bool{}, sent: map[string]*advSig{},
			recSeen: map[string]bool{}, advKeys: map[int]*adversary{}}
	}
	return h.c09
}

func sentKey(ord, index int, sig string) string { return fmt.Sprintf("%d/%d/%s", ord, index, sig) }

// violation reported once per (class, key) and history
func (h *hist) c09v(class, key, detail string) {
	s := h.c9()
	if s.reported[class+"|"+key] {
		return
	}
	s.reported[class+"|"+key] = true
	h.w.Violation("C09", class, detail)
}

// verify: keys.Verify of signature string sig by public key pub over hash; malformed input = false.
func (h *hist) c09verify(pub []byte, hash []byte, sig string) (ok bool) {
	s := h.c9()
	ck := fmt.Sprintf("%X|%X|%s", pub, hash, sig)
	if v, hit := s.verifyCache[ck]; hit {
		return v
	}
	h.actions["c09-sigs-verified-fresh"]++
	defer func() {
		if r := recover(); r != nil {
			ok = false
		}
		s.verifyCache[ck] = ok
	}()
	pk := keys.ToPublicKey(pub)
	if pk == nil || pk.X == nil || pk.Y == nil {
		return false
	}
	r, sv, err := keys.DecodeSignature(sig)
	if err != nil || r == nil || sv == nil {
		return false
	}
	return keys.Verify(pk, hash, r, sv)
}

// decodeKey: the bytes behind a Block.Signatures map key ("0X..." hex), nil when not decodable.
func decodeKey(k string) []byte {
	if len(k) < 2 || (k[:2] != "0X" && k[:2] != "0x") {
		return nil
	}
	out := []byte{}
	for i := 2; i+1 < len(k); i += 2 {
		var b byte
		for j := 0; j < 2; j++ {
			c := k[i+j]
			switch {
			case c >= '0' && c <= '9':
				b = b<<4 | (c - '0')
			case c >= 'a' && c <= 'f':
				b = b<<4 | (c - 'a' + 10)
			case c >= 'A' && c <= 'F':
				b = b<<4 | (c - 'A' + 10)
			default:
				return nil
			}
		}
		out = append(out, b)
	}
	if (len(k)-2)%2 != 0 {
		return nil
	}
	return out
}

// replayTable: the validator-set table as a fold over the node's delivered blocks (same rule as
// peerSetOracle): accepted receipts in block order, recorded at round-received+6 unless present.
func (h *hist) replayTable(a *hx.Node) map[int][]int {
	w := h.w
	cur := append([]int{}, h.genesis...)
	table := map[int][]int{0: append([]int{}, cur...)}
	for _, b := range a.Final {
		changed := false
		for _, r := range b.InternalTransactionReceipts() {
			if !r.Accepted {
				continue
			}
			o := w.Ord(r.InternalTransaction.Body.Peer.PubKeyHex)
			if r.InternalTransaction.Body.Type == hg.PEER_ADD {
				found := false
				for _, x := range cur {
					if x == o {
						found = true
					}
				}
				if !found {
					cur = append(append([]int{}, cur...), o)
				}
			} else {
				nc := []int{}
				for _, x := range cur {
					if x != o {
						nc = append(nc, x)
					}
				}
				cur = nc
			}
			changed = true
		}
		if changed {
			if _, exists := table[b.RoundReceived()+6]; !exists {
				table[b.RoundReceived()+6] = append([]int{}, cur...)
			}
		}
	}
	return table
}

func memberOrd(l []int, o int) bool {
	for _, x := range l {
		if x == o {
			return true
		}
	}
	return false
}

// trust: the number of signatures that must be EXCEEDED: more than one third of n validators;
// any signature for a single validator.
func trust(n int) int {
	if n <= 1 {
		return 0
	}
	return (n + 2) / 3 // ceil(n/3): k > ceil(n/3) implies 3k > n
}

// c09Block checks every recorded signature of stored block b of node a; returns the number of
// distinct member signers whose signature verifies.
func (h *hist) c09Block(a *hx.Node, b *hg.Block, table map[int][]int) (valid int, nset int) {
	w, s := h.w, h.c9()
	hash, err := b.Body.Hash()
	if err != nil {
		h.c09v("block-body-unhashable", fmt.Sprintf("%d/%d", a.ID, b.Index()), fmt.Sprintf("node=%d block=%d", a.ID, b.Index()))
		return 0, 0
	}
	rr := b.RoundReceived()
	storeSet := []int{}
	havePS := false
	if ps, err := a.Store.GetPeerSet(rr); err == nil && ps != nil {
		havePS = true
		for _, p := range ps.Peers {
			storeSet = append(storeSet, w.Ord(p.PubKeyHex))
		}
		nset = len(ps.Peers)
	}
	var replaySet []int
	if table != nil {
		replaySet = lookup(table, rr)
	}
	ks := []string{}
	for k := range b.Signatures {
		ks = append(ks, k)
	}
	sort.Strings(ks)
	// the public API view must be the same set of entries
	if len(b.GetSignatures()) != len(ks) {
		h.c09v("get-signatures-differs-from-map", fmt.Sprintf("%d/%d", a.ID, b.Index()), fmt.Sprintf("node=%d block=%d", a.ID, b.Index()))
	}
	seen := map[string]string{}
	for _, k := range ks {
		sig := b.Signatures[k]
		h.actions["c09-sigs-checked"]++
		id := fmt.Sprintf("%d/%d/%s", a.ID, b.Index(), k)
		pub := decodeKey(k)
		if pub == nil {
			h.c09v("recorded-signature-does-not-verify", id, fmt.Sprintf("node=%d block=%d signer-key-undecodable=%q", a.ID, b.Index(), k))
			continue
		}
		canon := fmt.Sprintf("0X%X", pub)
		ord := w.Ord(canon)
		if prev, dup := seen[canon]; dup {
			h.c09v("duplicate-signer-encodings", id, fmt.Sprintf("node=%d block=%d signer=%d keys=%q,%q", a.ID, b.Index(), ord, prev, k))
			continue
		}
		seen[canon] = k
		ok := h.c09verify(pub, hash, sig)
		if !ok {
			h.c09v("recorded-signature-does-not-verify", id+"/"+sig, fmt.Sprintf("node=%d block=%d rr=%d signer=%d sig=%.40q", a.ID, b.Index(), rr, ord, sig))
		}
		member := havePS && ord >= 0 && memberOrd(storeSet, ord)
		if !member {
			h.c09v("recorded-signature-by-non-validator", id, fmt.Sprintf("node=%d block=%d rr=%d signer=%d store-set=%v", a.ID, b.Index(), rr, ord, storeSet))
		}
		if replaySet != nil && !memberOrd(replaySet, ord) {
			member = false
			h.c09v("recorded-signature-by-non-validator", id+"/replay", fmt.Sprintf("node=%d block=%d rr=%d signer=%d replayed-set=%v", a.ID, b.Index(), rr, ord, replaySet))
		}
		if ok && member {
			valid++
		}
		// a node signs only blocks it delivered, over the delivered body (state hash included)
		if ord == a.Self {
			dh, delivered := s.delivHash[a.ID][b.Index()]
			if !delivered {
				h.c09v("signed-undelivered-block", id, fmt.Sprintf("node=%d block=%d delivered=%d", a.ID, b.Index(), len(a.Final)))
			} else if !h.c09verify(pub, dh, sig) {
				h.c09v("signed-undelivered-block", id+"/body", fmt.Sprintf("node=%d block=%d own signature is not over the delivered body", a.ID, b.Index()))
			}
			h.actions["c09-self-sigs-checked"]++
		}
		// adversarial stream accounting
		if adv := s.advKeys[ord]; adv != nil {
			e := s.sent[sentKey(ord, b.Index(), sig)]
			rk := id + "/" + sig
			if e == nil {
				h.c09v("recorded-signature-never-sent", rk, fmt.Sprintf("node=%d block=%d signer=%d sig=%.40q was never put in an event by that key", a.ID, b.Index(), ord, sig))
			} else if !s.recSeen[rk] {
				s.recSeen[rk] = true
				h.actions["c09-adv-recorded"]++
				h.actions["c09-adv-recorded-"+e.kind]++
				if !e.recordable {
					h.c09v("adversarial-signature-recorded", rk, fmt.Sprintf("kind=%s node=%d block=%d rr=%d signer=%d sig=%.40q", e.kind, a.ID, b.Index(), rr, ord, sig))
				}
			}
		}
	}
	return valid, nset
}

func (h *hist) c09Oracle(a *hx.Node) {
	if a.WasReset || a.PendingFF {
		return // fast-forwarded nodes are compared with full-history nodes by the C13 oracle
	}
	w, s := h.w, h.c9()
	if s.delivHash[a.ID] == nil {
		s.delivHash[a.ID] = map[int][]byte{}
	}
	for k := s.delivSeen[a.ID]; k < len(a.Final); k++ {
		hash, _ := a.Final[k].Body.Hash()
		s.delivHash[a.ID][a.Final[k].Index()] = hash
	}
	s.delivSeen[a.ID] = len(a.Final)
	var table map[int][]int
	if !a.WasReset {
		table = h.replayTable(a)
	}
	validOf := map[int]int{}
	nOf := map[int]int{}
	for i := 0; i <= a.Store.LastBlockIndex(); i++ {
		b, err := a.Store.GetBlock(i)
		if err != nil {
			continue
		}
		validOf[i], nOf[i] = h.c09Block(a, b, table)
		h.actions["c09-blocks-checked"]++
	}
	// the node's own events gossip only signatures of delivered blocks, over the delivered body
	if a.Core != nil {
		self := w.Peers[a.Self]
		if hs, err := a.Store.ParticipantEvents(self.PubKeyString(), s.ownChecked[a.ID]-1); err == nil {
			for _, x := range hs {
				ev, err := a.Store.GetEvent(x)
				if err != nil {
					continue
				}
				for _, bs := range ev.BlockSignatures() {
					dh, delivered := s.delivHash[a.ID][bs.Index]
					if !delivered || !h.c09verify(bs.Validator, dh, bs.Signature) || w.Ord(bs.ValidatorHex()) != a.Self {
						h.c09v("gossiped-own-signature-invalid", fmt.Sprintf("%d/%d/%d", a.ID, ev.Index(), bs.Index),
							fmt.Sprintf("node=%d own-event-index=%d block=%d delivered=%v", a.ID, ev.Index(), bs.Index, delivered))
					}
					h.actions["c09-own-gossiped-sigs-checked"]++
				}
				if ev.Index()+1 > s.ownChecked[a.ID] {
					s.ownChecked[a.ID] = ev.Index() + 1
				}
			}
		}
	}
	// anchor
	if a.Hg.AnchorBlock == nil {
		if _, had := s.anchorPrev[a.ID]; had && !a.WasReset {
			h.c09v("anchor-moved-backwards", fmt.Sprintf("%d/unset", a.ID), fmt.Sprintf("node=%d anchor was %d, now unset", a.ID, s.anchorPrev[a.ID]))
		}
		return
	}
	an := *a.Hg.AnchorBlock
	h.actions["c09-anchor-checks"]++
	if prev, had := s.anchorPrev[a.ID]; had {
		if an < prev && !a.WasReset {
			h.c09v("anchor-moved-backwards", fmt.Sprintf("%d/%d/%d", a.ID, prev, an), fmt.Sprintf("node=%d anchor %d -> %d", a.ID, prev, an))
		}
		if an > prev {
			h.actions["c09-anchor-advances"]++
		}
	} else {
		h.actions["c09-anchor-advances"]++
	}
	s.anchorPrev[a.ID] = an
	b, err := a.Store.GetBlock(an)
	if err != nil {
		h.c09v("anchor-block-missing", fmt.Sprintf("%d/%d", a.ID, an), fmt.Sprintf("node=%d anchor=%d: %v", a.ID, an, err))
		return
	}
	v, ok := validOf[an]
	if !ok {
		v, nOf[an] = h.c09Block(a, b, table)
	}
	n := nOf[an]
	if n == 0 || v <= trust(n) || 3*v <= n && n > 1 {
		h.c09v("anchor-under-signed", fmt.Sprintf("%d/%d", a.ID, an),
			fmt.Sprintf("node=%d anchor=%d rr=%d valid-distinct-member-signatures=%d recorded=%d validators=%d need>%d", a.ID, an, b.RoundReceived(), v, len(b.Signatures), n, trust(n)))
	}
	if ps, err := a.Store.GetPeerSet(b.RoundReceived()); err == nil && ps.TrustCount() != trust(n) {
		h.c09v("trust-count-differs", fmt.Sprintf("%d", n), fmt.Sprintf("validators=%d TrustCount=%d expected=%d", n, ps.TrustCount(), trust(n)))
	}
	m := v - trust(n)
	if m > 3 {
		m = 3
	}
	h.actions[fmt.Sprintf("c09-anchor-margin-%d", m)]++
	if a.Core != nil {
		ab, af, err := a.Core.GetAnchorBlockWithFrame()
		if err != nil || ab == nil || af == nil {
			h.c09v("anchor-with-frame-mismatch", fmt.Sprintf("%d/%d/err", a.ID, an), fmt.Sprintf("node=%d anchor=%d GetAnchorBlockWithFrame: %v", a.ID, an, err))
		} else if ab.Index() != an || len(ab.Signatures) != len(b.Signatures) || af.Round != b.RoundReceived() {
			h.c09v("anchor-with-frame-mismatch", fmt.Sprintf("%d/%d", a.ID, an),
				fmt.Sprintf("node=%d anchor=%d got block=%d sigs=%d/%d frame-round=%d rr=%d", a.ID, an, ab.Index(), len(ab.Signatures), len(b.Signatures), af.Round, b.RoundReceived()))
		}
		h.actions["c09-anchor-with-frame-calls"]++
	}
}

// safeCall runs f; a panic is returned as text with the innermost frames of the stack.
func safeCall(f func() error) (err error, panicked string) {
	defer func() {
		if r := recover(); r != nil {
			pcs := make([]uintptr, 40)
			n := runtime.Callers(2, pcs)
			fr := runtime.CallersFrames(pcs[:n])
			where := []string{}
			for {
				f, more := fr.Next()
				if strings.Contains(f.File, "babble") || strings.Contains(f.File, "/repo/") || strings.Contains(f.Function, "ecdsa") || strings.Contains(f.Function, "big.") {
					fn := f.Function
					if i := strings.LastIndex(fn, "/"); i >= 0 {
						fn = fn[i+1:]
					}
					file := f.File
					if i := strings.LastIndex(file, "/"); i >= 0 {
						file = file[i+1:]
					}
					where = append(where, fmt.Sprintf("%s(%s:%d)", fn, file, f.Line))
				}
				if !more || len(where) >= 6 {
					break
				}
			}
			panicked = fmt.Sprintf("%v at %s", r, strings.Join(where, "<-"))
		}
	}()
	return f(), ""
}
