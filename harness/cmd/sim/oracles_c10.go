package main

import (
	"fmt"

	hg "github.com/mosaicnetworks/babble/src/hashgraph"
	"github.com/mosaicnetworks/babble/src/peers"
	"verifharness/hx"
)

// c10DirectProbe (end of a -dyn history, after the last model comparison): the branch of
// core.processAcceptedInternalTransactions that gossip histories cannot reach, because round-received
// strictly increases along the blocks: an accepted receipt whose effective round (rr+6) already
// has an entry in the table. The store refuses the second entry; the call must return the error
// and leave the table AND core.validators as they were.
func (h *hist) c10DirectProbe(a *hx.Node) {
	if a.Core == nil || a.WasReset || a.Faulty {
		return
	}
	w := h.w
	all, _ := a.Store.GetAllPeerSets()
	r := -1
	for k := range all {
		if k >= 6 && k > r {
			r = k
		}
	}
	if r < 0 {
		return
	}
	tbl := func() string {
		t := map[int][]int{}
		cur, _ := a.Store.GetAllPeerSets()
		for k, ps := range cur {
			for _, p := range ps {
				t[k] = append(t[k], w.Ord(p.PubKeyHex))
			}
		}
		return tableStr(t)
	}
	vals := func() string {
		l := []int{}
		for _, p := range a.Core.Validators().Peers {
			l = append(l, w.Ord(p.PubKeyHex))
		}
		return fmt.Sprint(l)
	}
	t0, v0 := tbl(), vals()
	o := w.AddKey()
	p := w.Peers[o]
	itx := hg.NewInternalTransactionJoin(*peers.NewPeer(p.PubKeyHex, p.NetAddr, p.Moniker))
	itx.Sign(w.Privs[o])
	err := a.Core.ProcessAcceptedInternalTransactions(r-6, []hg.InternalTransactionReceipt{itx.AsAccepted()})
	h.actions["c10-direct-probes"]++
	if err == nil {
		w.Violation("C10", "second-table-entry-for-a-round-accepted", fmt.Sprintf("node=%d round=%d", a.ID, r))
	}
	if t1 := tbl(); t1 != t0 {
		w.Violation("C10", "table-changed-by-refused-entry", fmt.Sprintf("node=%d round=%d before=[%s] after=[%s]", a.ID, r, t0, t1))
	}
	if v1 := vals(); v1 != v0 {
		w.Violation("C10", "validators-updated-although-table-entry-refused", fmt.Sprintf("node=%d round=%d validators before=%s after=%s", a.ID, r, v0, v1))
	}
}
