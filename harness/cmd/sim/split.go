package main

// Adversarial schedules (-split): a DIRECTED generator of gossip histories in which the fame of a
// round-r witness x of a slow validator stays undecided through the normal rounds r+2, r+3 into
// the coin round r+4, while the rounds above r are decided quickly; plus late witnesses (a
// validator that was silent for several rounds builds on a stale head), monologues, events
// delivered to a node many rounds after everybody else, and refused fork attempts.
//
// Primitives (both are exactly what core.sync does, split in two):
//   deliver(a, e)   node a inserts e and the ancestors of e it does not have, in topological order,
//                   through the wire form (Event.ToWire -> Hashgraph.ReadWireInfo ->
//                   core.insertEventAndRunConsensus), then ProcessSigPool;
//   play(c, e)      deliver(c, e), then c creates its next event with other-parent e
//                   (core.addSelfEvent), then ProcessSigPool.
// So the DAG is fork-free and every event is created by the real core of its creator.
//
// Reasoning behind the schedule. y strongly sees w iff events of a super-majority (s) of creators
// lie on paths from y down to w. With f = n - s, the validators are split per cycle (= round j ->
// j+1) into L (late, |L| <= f), E (early) and H (helpers), R = E + H = everybody but L:
//   phase 1  only R gossips (L's round-j witnesses are fresh tips nobody has built on). The
//            helpers only contribute events that do NOT advance (guarded by predictRound); the
//            members of E reach round j+1: their witnesses strongly see exactly R's round-j
//            witnesses and do not see L's at all;
//   phase 2  the tips of L are handed to the helpers (still not advancing), then to E, so that
//            every round-j witness, L's included, has descendants of >= s creators; then H and
//            finally L advance: their round-(j+1) witnesses strongly see ALL n round-j witnesses.
// A witness w of a member of L of round j is therefore seen by the round-(j+1) witnesses of T = H + L
// and not by those of E; a later round-(q+1) witness takes the majority of the votes of R (if its
// creator is in E that cycle) or of all n (ties count as yes). The sequences of (L, E) below were
// obtained by exhaustive search on this vote arithmetic (lab/ideal2.py in INTEGRATION.md): x stays
// split at distance 2 and 3, reaches the coin round with a vote tally below s for some witnesses
// (middle bit used), while L's witnesses of rounds r+1 and r+2 are decided at round r+4 (distance 3
// and 2): rounds r+1, r+2 are completely decided while round r is not.
// The roles (which validator is slow, who is early) are a random permutation, the base round r is
// wherever the preceding random gossip left the network, and observers receive events at random.

import (
	"fmt"
	"os"
	"sort"

	"github.com/mosaicnetworks/babble/src/crypto/keys"
	hg "github.com/mosaicnetworks/babble/src/hashgraph"
	"verifharness/hx"
)

type cyc struct{ L, E []int } // role numbers

// templates[n]: cycles r, r+1, r+2, r+3 (roles are permuted at run time)
var splitTemplates = map[int][][]cyc{
	4: {
		{{[]int{0}, []int{1, 2}}, {[]int{0}, []int{1, 2}}, {[]int{0}, []int{1}}, {[]int{0}, []int{1, 2}}},
		{{[]int{0}, []int{1, 2}}, {[]int{0}, []int{1, 2}}, {[]int{0}, []int{1}}, {[]int{0}, []int{2, 3}}},
		{{[]int{0}, []int{1, 2}}, {[]int{0}, []int{1, 2}}, {[]int{0}, []int{1}}, {[]int{0}, []int{1, 2, 3}}},
	},
	5: {
		// no solution with one fixed late validator (ties count as yes and s = 4 of 5); the late role moves:
		// x is seen by 2 of 5, afterwards an early no-voter is the late one
		{{[]int{0}, []int{1, 2, 3}}, {[]int{1}, []int{0, 2}}, {[]int{1}, []int{0}}, {[]int{1}, []int{0, 2}}},
		{{[]int{0}, []int{1, 2, 3}}, {[]int{1}, []int{0, 2}}, {[]int{1}, []int{0}}, {[]int{1}, []int{3, 4}}},
	},
	6: {
		{{[]int{0}, []int{1, 2, 3}}, {[]int{0}, []int{1, 2, 3}}, {[]int{0}, []int{1}}, {[]int{0}, []int{1, 2}}},
		{{[]int{0}, []int{1, 2, 3}}, {[]int{0}, []int{1, 2, 3}}, {[]int{0}, []int{1}}, {[]int{0}, []int{4, 5}}},
	},
	7: {
		{{[]int{0}, []int{1, 2, 3}}, {[]int{0, 4}, []int{1, 2, 3}}, {[]int{0, 4}, []int{1}}, {[]int{0, 2}, []int{1}}},
		{{[]int{0}, []int{1, 2, 3}}, {[]int{0, 4}, []int{1, 2, 3}}, {[]int{0, 4}, []int{1}}, {[]int{0, 2}, []int{3, 5}}},
	},
}

// coinTemplates[n]: cycles r, r+1, r+2 of the LONE-DECIDER episodes (patches/lab/ideal6.py): x = the round-r witness of role 0 gets
// split votes at r+1, votes without a super-majority in any view at r+2 (mostly "no"), and at r+3 only the witness of the late
// validator d of cycle r+2 strongly sees all n round-(r+2) witnesses: a super-majority of "no", it DECIDES x not famous; every other
// round-(r+3) witness sees R = everybody but d: no super-majority, votes "no". d is silent from then on (its node keeps receiving,
// nobody builds on its witness). The others go through x's coin round r+4 strongly seeing only "no" votes - the rule forces their vote
// to "no" whatever the middle bit of their hash says (it says "yes" unless the middle byte is 0) - and decide "no" at r+5.
var coinTemplates = map[int][][]cyc{
	4: {
		{{[]int{0}, []int{1, 2}}, {[]int{0}, []int{1, 2, 3}}, {[]int{1}, []int{0, 2, 3}}},
		{{[]int{0}, []int{1, 2}}, {[]int{0}, []int{1, 2, 3}}, {[]int{3}, []int{0, 1, 2}}},
		{{[]int{0}, []int{1, 2}}, {[]int{3}, []int{0, 1, 2}}, {[]int{0}, []int{1, 2, 3}}},
		{{[]int{0}, []int{1, 2}}, {[]int{3}, []int{0, 1, 2}}, {[]int{1}, []int{0, 2, 3}}},
	},
	5: {
		{{[]int{0}, []int{1, 2, 3}}, {[]int{1}, []int{0}}, {[]int{1}, []int{0, 2, 3, 4}}},
		{{[]int{0}, []int{1, 2, 3}}, {[]int{1}, []int{0}}, {[]int{4}, []int{0, 1, 2, 3}}},
		{{[]int{0}, []int{1, 2, 3}}, {[]int{1}, []int{2}}, {[]int{0}, []int{1, 2, 3, 4}}},
		{{[]int{0}, []int{1, 2, 3}}, {[]int{1}, []int{2}}, {[]int{1}, []int{0, 2, 3, 4}}},
	},
	6: {
		{{[]int{0}, []int{1, 2, 3}}, {[]int{0}, []int{1, 2, 3, 4, 5}}, {[]int{1}, []int{0, 2, 3, 4, 5}}},
		{{[]int{0}, []int{1, 2, 3}}, {[]int{0}, []int{1, 2, 3, 4, 5}}, {[]int{5}, []int{0, 1, 2, 3, 4}}},
	},
	7: {
		{{[]int{0}, []int{1, 2, 3}}, {[]int{0, 4}, []int{1, 2, 3, 5, 6}}, {[]int{1}, []int{0, 2, 3, 4, 5, 6}}},
		{{[]int{0}, []int{1, 2, 3}}, {[]int{0, 4}, []int{1, 2, 3, 5, 6}}, {[]int{6}, []int{0, 1, 2, 3, 4, 5}}},
	},
}

type splitCtl struct {
	budget  int
	used    int
	obsRate float64
	txRate  float64
	debug   bool
}

func (h *hist) evNode(eid int) *hx.Node {
	o := h.w.Ord(h.w.EvByEid[eid].Creator())
	for _, nd := range h.nodes {
		if nd.Self == o {
			return nd
		}
	}
	// an event of a harness-driven validator (-advsigs): any model-compared node that holds it
	for _, nd := range h.nodes {
		if nd.Inserted[eid] && !nd.Faulty {
			return nd
		}
	}
	return nil
}

func (h *hist) headEid(c *hx.Node) int {
	hd := c.Core.Head()
	if hd == "" {
		return -1
	}
	return h.w.Eid(hd)
}

// missing: ancestors of eid (itself included) that node a has not inserted, parents first
func (h *hist) missing(a *hx.Node, eid int) []int {
	out := []int{}
	seen := map[int]bool{}
	var walk func(id int)
	walk = func(id int) {
		if id < 0 || seen[id] || a.Inserted[id] {
			return
		}
		seen[id] = true
		ev := h.w.EvByEid[id]
		walk(h.w.Eid(ev.SelfParent()))
		walk(h.w.Eid(ev.OtherParent()))
		out = append(out, id)
	}
	walk(eid)
	return out
}

// deliver: see the file comment. Returns false when an insertion was refused.
func (h *hist) deliver(a *hx.Node, eid int) bool { return h.deliverX(a, eid, true) }

// deliverX: with finish=false the action is left open (no ProcessSigPool, no observation yet): the caller
// goes on with the node's self-event, as core.sync does, and closes the action itself.
func (h *hist) deliverX(a *hx.Node, eid int, finish bool) bool {
	if eid < 0 {
		return true
	}
	todo := h.missing(a, eid)
	if len(todo) == 0 {
		return true
	}
	h.armPassFault(a)
	ok := true
	for _, id := range todo {
		src := h.evNode(id)
		if src == nil {
			ok = false
			break
		}
		ev, err := src.Store.GetEvent(h.w.EvByEid[id].Hex())
		if err != nil {
			ok = false
			break
		}
		we := ev.ToWire()
		rev, err := a.Hg.ReadWireInfo(we)
		if err != nil {
			h.actions["split-wire-error"]++
			ok = false
			break
		}
		if err := a.Core.InsertEventAndRunConsensus(rev, false); err != nil {
			h.actions["split-insert-error"]++
			if os.Getenv("VERIF_SYNCDEBUG") != "" {
				fmt.Fprintf(os.Stderr, "SPLIT insert node=%d eid=%d: %v\n", a.ID, id, err)
				for p := range a.Store.RepertoireByPubKey() {
					lc, _ := a.Store.LastConsensusEventFrom(p)
					le, _ := a.Store.LastEventFrom(p)
					fmt.Fprintf(os.Stderr, "   creator %d last consensus eid=%d round=%d  last eid=%d round=%d\n", h.w.Ord(p), h.w.Eid(lc), h.storedRound(a, h.w.Eid(lc)), h.w.Eid(le), h.storedRound(a, h.w.Eid(le)))
				}
			}
			ok = false
			break
		}
		a.NoteInserted(h.w.EvByEid[id])
	}
	h.actions["split-deliver"]++
	h.actions["split-delivered-events"] += len(todo)
	if finish || !ok {
		h.closeAction(a)
	}
	return ok
}

func (h *hist) closeAction(a *hx.Node) {
	if perr := h.processSigPool(a); perr != nil {
		h.actions["sigpool-error"]++
	}
	h.after(a, true)
}

func (h *hist) storedRound(nd *hx.Node, eid int) int {
	if eid < 0 {
		return -1
	}
	ev, err := nd.Store.GetEvent(h.w.EvByEid[eid].Hex())
	if err != nil {
		return -1
	}
	r, ok := ev.VerifRound()
	if !ok {
		return -1
	}
	return r
}

func (h *hist) headRound(c *hx.Node) int { return h.storedRound(c, h.headEid(c)) }

// predictRound: the round the next event of c would get with other-parent op (already delivered
// to c), and the number of parent-round witnesses it would strongly see. Pure steering: the
// coordinates are read from c's store, nothing is inserted.
func (h *hist) predictRound(c *hx.Node, op int) (round int, strong int) {
	la, pr, self := h.hypoCoords(c, op)
	if pr < 0 {
		return 0, 0
	}
	_, sm, ok := peerPubs(c, pr)
	if !ok {
		return pr, 0
	}
	strong = h.hypoStrong(c, la, self, pr)
	if strong >= sm {
		return pr + 1, strong
	}
	return pr, strong
}

// predictStrong: how many round-q witnesses the next event of c with other-parent op would strongly see
func (h *hist) predictStrong(c *hx.Node, op int, q int) int {
	la, pr, self := h.hypoCoords(c, op)
	if pr < 0 {
		return 0
	}
	return h.hypoStrong(c, la, self, q)
}

// hypoCoords: last-ancestor coordinates (index per creator) of the hypothetical next event of c with other-parent op
func (h *hist) hypoCoords(c *hx.Node, op int) (la map[string]int, pr int, self string) {
	w := h.w
	sp := h.headEid(c)
	la = map[string]int{}
	pr = -1
	for _, p := range []int{sp, op} {
		if p < 0 {
			continue
		}
		ev, err := c.Store.GetEvent(w.EvByEid[p].Hex())
		if err != nil {
			continue
		}
		for k, co := range ev.VerifLastAncestors() {
			if cur, ok := la[k]; !ok || co.Index > cur {
				la[k] = co.Index
			}
		}
		if r, ok := ev.VerifRound(); ok && r > pr {
			pr = r
		}
	}
	self = w.Peers[c.Self].PubKeyString()
	myIndex := 0
	if sp >= 0 {
		myIndex = w.EvByEid[sp].Index() + 1
	}
	la[self] = myIndex
	return la, pr, self
}

func (h *hist) hypoStrong(c *hx.Node, la map[string]int, self string, q int) (strong int) {
	pubs, sm, ok := peerPubs(c, q)
	if !ok {
		return 0
	}
	ri, err := c.Store.GetRound(q)
	if err != nil {
		return 0
	}
	for _, x := range ri.Witnesses() {
		we, err := c.Store.GetEvent(x)
		if err != nil {
			continue
		}
		fd := we.VerifFirstDescendants()
		cnt := 0
		for _, p := range pubs {
			idx, has := la[p]
			if !has {
				continue
			}
			if f, ok := fd[p]; ok {
				if idx >= f.Index {
					cnt++
				}
			} else if p == self {
				// the new event would become w's first descendant by c if it sees w
				if ci, ok := la[we.Creator()]; ok && ci >= we.Index() {
					cnt++
				}
			}
		}
		if cnt >= sm {
			strong++
		}
	}
	return strong
}

// ---- exact ancestry on the harness's own record of the DAG (eids grow from parents to children)

func (h *hist) parentsOf(eid int) (int, int) {
	ev := h.w.EvByEid[eid]
	return h.w.Eid(ev.SelfParent()), h.w.Eid(ev.OtherParent())
}

// ancSet: ancestors of y (y included) whose eid is >= floor
func (h *hist) ancSet(y, floor int) map[int]bool {
	out := map[int]bool{}
	stack := []int{y}
	for len(stack) > 0 {
		x := stack[len(stack)-1]
		stack = stack[:len(stack)-1]
		if x < floor || x < 0 || out[x] {
			continue
		}
		out[x] = true
		a, b := h.parentsOf(x)
		stack = append(stack, a, b)
	}
	return out
}

// creatorsBetween: key ordinals of the creators that have an event z with w <= z <= y in the DAG
func (h *hist) creatorsBetween(y, w int) map[int]bool {
	cr := map[int]bool{}
	if y < 0 || w < 0 {
		return cr
	}
	A := h.ancSet(y, w)
	if !A[w] {
		return cr
	}
	ids := []int{}
	for z := range A {
		ids = append(ids, z)
	}
	sort.Ints(ids)
	desc := map[int]bool{w: true}
	for _, z := range ids {
		if z == w {
			continue
		}
		a, b := h.parentsOf(z)
		if desc[a] || desc[b] {
			desc[z] = true
		}
	}
	for z := range desc {
		cr[h.w.Ord(h.w.EvByEid[z].Creator())] = true
	}
	return cr
}

// witnessOf: c's first event of round j (from c's own store), -1 if c has none
func (h *hist) witnessOf(c *hx.Node, j int) int {
	best := -1
	for e := h.headEid(c); e >= 0; {
		r := h.storedRound(c, e)
		if r < j {
			break
		}
		if r == j {
			best = e
		}
		e, _ = h.parentsOf(e)
	}
	return best
}

func (h *hist) spTx(sc *splitCtl, c *hx.Node) {
	if h.rng.Float64() < sc.txRate {
		h.submit(c)
	}
}

// play: see the file comment. Returns the eid of the new event (-1 on failure).
func (h *hist) play(sc *splitCtl, c *hx.Node, op int) int {
	if !h.deliverX(c, op, false) {
		return -1
	}
	h.spTx(sc, c)
	hex := ""
	if op >= 0 {
		hex = h.w.EvByEid[op].Hex()
	}
	before := c.Core.Head()
	h.armPassFault(c)
	if err := c.Core.AddSelfEvent(hex); err != nil {
		h.actions["split-selfevent-error"]++
		h.closeAction(c)
		return -1
	}
	if perr := h.processSigPool(c); perr != nil {
		h.actions["sigpool-error"]++
	}
	h.after(c, true)
	sc.used++
	h.actions["split-play"]++
	if c.Core.Head() == before {
		return -1
	}
	h.observer(sc)
	return h.headEid(c)
}

// guardedPlay: c builds on op only if that does not take c beyond round limit
func (h *hist) guardedPlay(sc *splitCtl, c *hx.Node, op int, limit int) int {
	pending := len(h.missing(c, op)) > 0
	if !h.deliverX(c, op, false) {
		return -1
	}
	if r, _ := h.predictRound(c, op); r > limit {
		h.actions["split-guard-skip"]++
		if pending {
			h.closeAction(c)
		}
		return -1
	}
	return h.play(sc, c, op)
}

// observer: with some probability a random node receives the ancestry of a random node's head
// (no event is created): observers lag by a random amount, sometimes by many rounds
func (h *hist) observer(sc *splitCtl) {
	if h.rng.Float64() >= sc.obsRate {
		return
	}
	a := h.nodes[h.rng.Intn(len(h.nodes))]
	b := h.nodes[h.rng.Intn(len(h.nodes))]
	if a == b {
		return
	}
	if e := h.headEid(b); e >= 0 && len(h.missing(a, e)) > 0 {
		h.deliver(a, e)
		h.actions["split-observer-delivery"]++
	}
}

func minus(all []*hx.Node, sets ...[]*hx.Node) []*hx.Node {
	out := []*hx.Node{}
	for _, x := range all {
		in := false
		for _, s := range sets {
			for _, y := range s {
				if x == y {
					in = true
				}
			}
		}
		if !in {
			out = append(out, x)
		}
	}
	return out
}

func contains(l []*hx.Node, x *hx.Node) bool {
	for _, y := range l {
		if x == y {
			return true
		}
	}
	return false
}

// ring: the members play in turn, each on the head of the previous player, until all of `until`
// have a head of round >= target (at most maxPlays plays). Returns the last player.
func (h *hist) ring(sc *splitCtl, members []*hx.Node, prev *hx.Node, until []*hx.Node, target int, maxPlays int) *hx.Node {
	reached := func() bool {
		for _, c := range until {
			if h.headRound(c) < target {
				return false
			}
		}
		return true
	}
	for t := 0; t < maxPlays && !reached(); t++ {
		c := members[t%len(members)]
		if c == prev {
			if len(members) == 1 {
				break
			}
			continue
		}
		op := -1
		if prev != nil {
			op = h.headEid(prev)
		}
		if h.play(sc, c, op) >= 0 {
			prev = c
		}
	}
	return prev
}

// cycle j -> j+1 with late set L, early set E, and `fresh` = the late set of the NEXT cycle (their
// new witnesses must stay tips). Returns false when the expected structure was not reached.
func (h *hist) splitCycle(sc *splitCtl, j int, L, E, fresh []*hx.Node) bool {
	all := h.nodes[:h.cfg.n]
	H := minus(all, L, E)
	// helpers that must stay fresh play last among the helpers
	sort.SliceStable(H, func(a, b int) bool { return !contains(fresh, H[a]) && contains(fresh, H[b]) })
	m, k := len(H), len(E)
	dbg := func(f string, args ...interface{}) {
		if sc.debug {
			fmt.Fprintf(os.Stderr, "  [cycle %d] "+f+"\n", append([]interface{}{j}, args...)...)
		}
	}
	ids := func(l []*hx.Node) []int {
		r := []int{}
		for _, x := range l {
			r = append(r, x.ID)
		}
		return r
	}
	dbg("L=%v E=%v H=%v fresh=%v", ids(L), ids(E), ids(H), ids(fresh))
	// ---- phase 1: R only. Early members that must be LATE in the next cycle behave as helpers and
	// advance with the very last event of the phase (nobody builds on their new witness).
	Ef := []*hx.Node{}
	for _, e := range E {
		if contains(fresh, e) {
			Ef = append(Ef, e)
		}
	}
	E = minus(E, Ef)
	k = len(E)
	Hc := append(append([]*hx.Node{}, H...), Ef...)
	mc := len(Hc)
	hchain := func() *hx.Node {
		if mc == 0 {
			return nil
		}
		lastp := Hc[0]
		if mc >= 2 {
			for i := 1; i < mc; i++ {
				if h.guardedPlay(sc, Hc[i], h.headEid(Hc[i-1]), j) >= 0 {
					lastp = Hc[i]
				}
			}
			if h.guardedPlay(sc, Hc[0], h.headEid(Hc[mc-1]), j) >= 0 {
				lastp = Hc[0]
			}
			for i := 1; i < mc-1; i++ {
				if h.guardedPlay(sc, Hc[i], h.headEid(Hc[i-1]), j) >= 0 {
					lastp = Hc[i]
				}
			}
		}
		return lastp
	}
	var last *hx.Node
	if k > 0 {
		for try := 0; try < 3; try++ {
			prev := hchain()
			if prev == nil {
				prev = E[k-1]
			}
			if k == 1 {
				h.play(sc, E[0], h.headEid(prev))
				last = E[0]
			} else {
				last = h.ring(sc, E, prev, E, j+1, 4*k+2)
			}
			ok := true
			for _, e := range E {
				if h.headRound(e) < j+1 {
					ok = false
				}
			}
			if ok {
				break
			}
			if try == 2 {
				for _, e := range E {
					r, st := h.predictRound(e, h.headEid(last))
					dbg("phase 1: E did not advance: node %d head round %d; on head of %d it would get round %d seeing %d witnesses strongly", e.ID, h.headRound(e), last.ID, r, st)
				}
				h.actions["split-phase1-failed"]++
				return false
			}
			// repair: for every early member e and every round-j witness w of R, each member of R needs an
			// event between w and e's head. Whoever lacks one builds on w itself (helpers only if that does
			// not advance them), then the early members collect these events and the ring is tried again.
			R := append(append([]*hx.Node{}, E...), Hc...)
			changed := []*hx.Node{}
			for _, e := range E {
				if h.headRound(e) >= j+1 {
					continue
				}
				for _, wc := range R {
					wj := h.witnessOf(wc, j)
					if wj < 0 {
						continue
					}
					cb := h.creatorsBetween(h.headEid(e), wj)
					for _, p := range R {
						if cb[p.Self] || p == e {
							continue
						}
						if pw := h.creatorsBetween(h.headEid(p), wj); pw[p.Self] {
							// p has such an event, e just has not got it yet
							if !contains(changed, p) {
								changed = append(changed, p)
							}
							continue
						}
						done := -1
						if contains(Hc, p) {
							done = h.guardedPlay(sc, p, wj, j)
						} else {
							done = h.play(sc, p, wj)
						}
						if done >= 0 && !contains(changed, p) {
							changed = append(changed, p)
						}
						h.actions["split-repair-plays"]++
					}
				}
			}
			for i, p := range changed {
				e := E[i%k]
				if e != p {
					h.play(sc, e, h.headEid(p))
					last = e
				}
			}
		}
		for _, ef := range Ef {
			h.play(sc, ef, h.headEid(last))
			if h.headRound(ef) < j+1 {
				dbg("phase 1: next-late early member %d did not advance", ef.ID)
				h.actions["split-phase1-ef-failed"]++
			}
		}
	}
	// ---- phase 2a: L's tips to the helpers (not advancing), then to E
	for _, l := range L {
		for _, hh := range H {
			h.guardedPlay(sc, hh, h.headEid(l), j)
		}
	}
	if k > 0 {
		var prev *hx.Node
		if m > 0 {
			prev = H[m-1]
		}
		for _, e := range E {
			if m == 0 {
				// without helpers the early members are all in round j+1 already and one more lap would take them to
				// j+2 (and the late validators with them, past the round they are meant to witness): they take the tips
				// only with events that stay in round j+1
				done := -1
				if prev != nil {
					done = h.guardedPlay(sc, e, h.headEid(prev), j+1)
				}
				if done < 0 {
					for _, l := range L {
						if h.guardedPlay(sc, e, h.headEid(l), j+1) >= 0 {
							done = 0
						}
					}
				}
				if done < 0 {
					continue
				}
			} else {
				h.play(sc, e, h.headEid(prev))
			}
			prev = e
			last = e
		}
	}
	// ---- phase 2b: the helpers advance (they now strongly see all round-j witnesses)
	if m > 0 {
		if k == 0 {
			last = h.ring(sc, H, nil, H, j+1, 5*m+4)
		} else {
			for pass := 0; pass < 3; pass++ {
				done := true
				for _, hh := range H {
					if h.headRound(hh) >= j+1 {
						continue
					}
					h.play(sc, hh, h.headEid(last))
					if h.headRound(hh) >= j+1 {
						if !contains(fresh, hh) {
							last = hh
						}
					} else {
						done = false
					}
				}
				if done {
					break
				}
				// more events of E on top of the helpers' new events
				for _, e := range E {
					h.play(sc, e, h.headEid(H[m-1]))
					last = e
				}
			}
		}
	}
	// ---- phase 2c: the late validators advance last; their witnesses stay tips
	if last == nil {
		last = minus(all, L)[0]
	}
	for _, l := range L {
		for try := 0; try < 3 && h.headRound(l) < j+1; try++ {
			// build on the head that puts the new event into round j+1 exactly (not beyond)
			// and that strongly sees as many round-j witnesses as possible (all n is the aim)
			op, best := h.headEid(last), -1
			for _, c := range append([]*hx.Node{last}, minus(all, L, fresh, []*hx.Node{last})...) {
				if !h.deliverX(l, h.headEid(c), false) {
					continue
				}
				if r, _ := h.predictRound(l, h.headEid(c)); r == j+1 {
					if st := h.predictStrong(l, h.headEid(c), j); st > best {
						op, best = h.headEid(c), st
					}
				}
			}
			if best >= 0 && best < len(all) && try == 0 && m == 0 {
				// its own round-j witness is not yet under events of enough creators: the early members that have
				// not built on it do so now (staying in round j+1), then the choice is made again
				for _, e := range E {
					if !h.creatorsBetween(h.headEid(e), h.witnessOf(l, j))[e.Self] {
						h.guardedPlay(sc, e, h.headEid(l), j+1)
					}
				}
				for _, c := range minus(all, L, fresh) {
					if h.deliverX(l, h.headEid(c), false) {
						if r, _ := h.predictRound(l, h.headEid(c)); r == j+1 {
							if st := h.predictStrong(l, h.headEid(c), j); st > best {
								op, best = h.headEid(c), st
							}
						}
					}
				}
			}
			h.play(sc, l, op)
			if h.headRound(l) < j+1 {
				// not enough descendants of its own round-j witness yet: one more pass of R on top of it
				for _, c := range minus(all, L, fresh) {
					h.play(sc, c, h.headEid(l))
					last = c
				}
			}
		}
	}
	ok := true
	for _, c := range all {
		if h.headRound(c) < j+1 {
			ok = false
		}
	}
	if !ok {
		h.actions["split-cycle-incomplete"]++
	}
	return ok
}

// votesOn: for steering/debug only: which round-q witnesses (by creator node id) see x
func (h *hist) votesOn(a *hx.Node, x int, q int) map[int]bool {
	out := map[int]bool{}
	xe, err := a.Store.GetEvent(h.w.EvByEid[x].Hex())
	if err != nil {
		return out
	}
	for _, y := range h.roundWitnesses(a, q) {
		out[h.w.Ord(y.Creator())] = seesEv(y, xe)
	}
	return out
}

// everybody: all-pairs deliveries (no event created) so that every node has the whole DAG
func (h *hist) everybody() {
	for _, a := range h.nodes {
		for _, b := range h.nodes {
			if a != b {
				if e := h.headEid(b); e >= 0 && len(h.missing(a, e)) > 0 {
					h.deliver(a, e)
				}
			}
		}
	}
}

// randomGossip: k plays with random partners (other-parent = partner's head)
func (h *hist) randomGossip(sc *splitCtl, members []*hx.Node, k int) {
	if len(members) < 2 {
		return
	}
	for i := 0; i < k; i++ {
		c := members[h.rng.Intn(len(members))]
		p := members[h.rng.Intn(len(members))]
		if c == p {
			continue
		}
		h.play(sc, c, h.headEid(p))
	}
}

func (h *hist) maxHeadRound(l []*hx.Node) int {
	r := -1
	for _, c := range l {
		if x := h.headRound(c); x > r {
			r = x
		}
	}
	return r
}

// splitEpisode: one split-vote episode. Returns false if it could not be set up.
func (h *hist) splitEpisode(sc *splitCtl) bool {
	n := h.cfg.n
	all := h.nodes[:n]
	rng := h.rng
	tpls := splitTemplates[n]
	if len(tpls) == 0 {
		return false
	}
	tpl := tpls[rng.Intn(len(tpls))]
	coin := false
	if ct := coinTemplates[n]; len(ct) > 0 && (rng.Intn(3) == 0 || os.Getenv("VERIF_COINTPL") != "") {
		tpl, coin = ct[rng.Intn(len(ct))], true
	}
	perm := rng.Perm(n)
	role := func(rs []int) []*hx.Node {
		out := []*hx.Node{}
		for _, r := range rs {
			out = append(out, all[perm[r]])
		}
		return out
	}
	L0 := role(tpl[0].L)
	R0 := minus(all, L0)
	// everybody has a first event
	for _, c := range all {
		if c.Core.Head() == "" {
			h.play(sc, c, -1)
		}
	}
	// the slow validators fall silent; the others move on to a new round r (how far: random)
	j0 := h.maxHeadRound(all)
	extra := rng.Intn(3) // additional rounds of silence: x's creator's old head is far below
	r := j0 + 1 + extra
	h.ring(sc, R0, nil, R0, r, (r-j0)*(5*len(R0))+10)
	if h.maxHeadRound(R0) != r {
		h.actions["split-setup-failed"]++
		return false
	}
	for _, c := range R0 {
		if h.headRound(c) < r {
			h.actions["split-setup-failed"]++
			return false
		}
	}
	// the first round-r witness (lowest eid) is what the slow validators wake up on: their new
	// event is their round-r witness x, a tip nobody has seen
	first := -1
	for _, c := range R0 {
		for e := h.headEid(c); e >= 0; e = h.w.Eid(h.w.EvByEid[e].SelfParent()) {
			if h.storedRound(c, e) < r {
				break
			}
			if first < 0 || e < first {
				first = e
			}
		}
	}
	xs := []int{}
	for _, l := range L0 {
		x := h.play(sc, l, first)
		if x < 0 || h.storedRound(l, x) != r {
			h.actions["split-setup-failed"]++
			return false
		}
		xs = append(xs, x)
	}
	h.actions["split-episodes"]++
	if h.cfg.passFaults {
		// at most half of the nodes may lose a pass write in this episode (the others stay model-compared)
		h.passArm = map[int]bool{}
		for _, i := range rng.Perm(len(h.nodes))[:len(h.nodes)/2] {
			if rng.Intn(2) == 0 {
				h.passArm[h.nodes[i].ID] = true
			}
		}
	}
	if h.cfg.appFaults && len(h.appFailed) < (len(h.nodes)-1)/3 && rng.Intn(2) == 0 {
		// the application of one node fails its next commit (at most a minority of the nodes per history)
		c := h.nodes[rng.Intn(len(h.nodes))]
		if !h.appFailed[c.ID] && !c.App.FailNext {
			c.App.FailNext = true
			h.actions["app-fault-armed"]++
		}
	}
	if sc.debug {
		fmt.Fprintf(os.Stderr, "episode n=%d base round r=%d x=%v roles=%v\n", n, r, xs, perm)
	}
	// late witnesses of the following cycles that are not late at r wake up the same way when their turn comes
	for ci, cy := range tpl {
		L, E := role(cy.L), role(cy.E)
		fresh := []*hx.Node{}
		if ci+1 < len(tpl) {
			fresh = role(tpl[ci+1].L)
		} else {
			fresh = L
		}
		if !h.splitCycle(sc, r+ci, L, E, fresh) {
			break
		}
		if sc.debug {
			ref := L0[0]
			fmt.Fprintf(os.Stderr, "  after cycle %d: votes on x at round %d (by creator): %v\n", r+ci, r+1, h.votesOn(ref, xs[0], r+1))
		}
	}
	if coin {
		h.coinTail(sc, r, xs[0], role(tpl[len(tpl)-1].L))
	}
	// finish: everybody gossips with everybody until x is decided at the slow validator's node (bounded)
	for t := 0; t < 8*n; t++ {
		ref := L0[0]
		ri, err := ref.Store.GetRound(r)
		if err == nil && ri.IsDecided(h.w.EvByEid[xs[0]].Hex()) {
			break
		}
		h.randomGossip(sc, all, 1)
	}
	return true
}

func (h *hist) fameOf(a *hx.Node, r, x int) (decided, famous bool) {
	ri, err := a.Store.GetRound(r)
	if err != nil {
		return false, false
	}
	hexx := h.w.EvByEid[x].Hex()
	if !ri.IsDecided(hexx) {
		return false, false
	}
	for _, f := range ri.FamousWitnesses() {
		if f == hexx {
			return true, true
		}
	}
	return true, false
}

// coinTail: second half of a lone-decider episode (see coinTemplates). d = the lone deciders: they are silent from now on, their
// nodes keep receiving; nobody receives anything from them until the others have decided x at distance 5 or later.
func (h *hist) coinTail(sc *splitCtl, r, x int, d []*hx.Node) {
	all := h.nodes[:h.cfg.n]
	rest := minus(all, d)
	h.actions["coin-template-episodes"]++
	dd, df := h.fameOf(d[0], r, x)
	od, _ := h.fameOf(rest[0], r, x)
	if dd && !df && !od {
		h.actions["coin-template-lone-decider"]++
	} else if sc.debug {
		fmt.Fprintf(os.Stderr, "  coin template: lone decider not reached (decided at d=%v famous=%v, decided elsewhere=%v) d=%d\n", dd, df, od, d[0].Self)
		tr := []string{}
		h.voteTrace = &tr
		if xe, err := d[0].Store.GetEvent(h.w.EvByEid[x].Hex()); err == nil {
			h.fameDistance(d[0], r, xe)
		}
		h.voteTrace = nil
		for _, l := range tr {
			fmt.Fprintf(os.Stderr, "      %s\n", l)
		}
	}
	saved := sc.obsRate
	sc.obsRate = 0 // a random observer delivery could hand the deciding witness to the others
	h.ring(sc, rest, nil, rest, r+6, 5*5*len(rest)+10)
	for _, c := range d {
		h.deliver(c, h.headEid(rest[len(rest)-1])) // the silent validator keeps listening
	}
	sc.obsRate = saved
	if ok, _ := h.fameOf(rest[0], r, x); ok {
		h.actions["coin-template-decided-by-the-rest"]++
	}
}

// lateWitness: validator z stays silent for a few rounds while the others move on (z's node still
// receives what they create); then z builds on a STALE event of a round that is already decided: its
// new event is its first one in that round, a witness of a decided round (late witness), far above
// its old head.
func (h *hist) lateWitness(sc *splitCtl, z *hx.Node) {
	all := h.nodes[:h.cfg.n]
	others := minus(all, []*hx.Node{z})
	if 3*len(others) <= 2*len(all) {
		return
	}
	zr := h.headRound(z)
	target := h.maxHeadRound(all) + 3 + h.rng.Intn(2)
	h.ring(sc, others, nil, others, target, (target-zr+1)*5*len(others))
	for _, o := range others {
		h.deliver(z, h.headEid(o))
	}
	lcr := -1
	if z.Hg.LastConsensusRound != nil {
		lcr = *z.Hg.LastConsensusRound
	}
	cands := []int{}
	for eid := range z.Inserted {
		if h.forks[eid] || h.w.Ord(h.w.EvByEid[eid].Creator()) == z.Self {
			continue
		}
		if r := h.storedRound(z, eid); r > zr && r <= lcr {
			cands = append(cands, eid)
		}
	}
	if len(cands) == 0 {
		return
	}
	sort.Ints(cands)
	op := cands[h.rng.Intn(len(cands))]
	if e := h.play(sc, z, op); e >= 0 {
		h.actions["split-stale-parent-plays"]++
		if r := h.storedRound(z, e); r <= lcr {
			h.actions["split-late-witness-created"]++
		}
	}
}

// monologue: c creates k events on its own (other-parent empty), as node.monologue does while busy
func (h *hist) monologue(sc *splitCtl, c *hx.Node, k int) {
	for i := 0; i < k; i++ {
		h.submit(c)
		h.play(sc, c, -1)
	}
	h.actions["split-monologue-events"] += k
}

// forkAttempt: a second event of validator v on top of an event that already has a successor is
// sent to node a (which knows the successor): it must be refused (self-parent is not the
// creator's last known event) and change nothing. The line is replayed on the model.
func (h *hist) forkAttempt(a *hx.Node) {
	w := h.w
	// victim: a creator with at least two events known to a
	ords := []int{}
	for _, nd := range h.nodes[:h.cfg.n] {
		ords = append(ords, nd.Self)
	}
	v := ords[h.rng.Intn(len(ords))]
	vn := h.nodes[0]
	for _, nd := range h.nodes {
		if nd.Self == v {
			vn = nd
		}
	}
	if vn == a {
		return
	}
	chain, err := a.Store.ParticipantEvents(w.Peers[v].PubKeyString(), -1)
	if err != nil || len(chain) < 2 {
		return
	}
	k := h.rng.Intn(len(chain) - 1) // parent = chain[k], which has successor chain[k+1]
	parent, err := a.Store.GetEvent(chain[k])
	if err != nil {
		return
	}
	op, opCreator, opIndex := "", uint32(0), -1
	if hd := a.Core.Head(); hd != "" && h.rng.Intn(2) == 0 {
		if oe, err := a.Store.GetEvent(hd); err == nil && w.Ord(oe.Creator()) != v {
			op, opCreator, opIndex = hd, w.Peers[w.Ord(oe.Creator())].ID(), oe.Index()
		}
	}
	pub := keys.FromPublicKey(&w.Privs[v].PublicKey)
	ev := hg.NewEvent([][]byte{w.NewTx(0)}, nil, nil, []string{parent.Hex(), op}, pub, parent.Index()+1)
	ev.Sign(w.Privs[v])
	ev.SetWireInfo(parent.Index(), opCreator, opIndex, w.Peers[v].ID())
	before := len(a.Inserted)
	known := a.Core.KnownEvents()[w.Peers[v].ID()]
	rev, rerr := a.Hg.ReadWireInfo(ev.ToWire())
	if rerr != nil {
		h.actions["fork-attempt-wire-error"]++
		return
	}
	// registered under a private id so that the model sees the same parents; never part of the DAG
	line := w.EventLine(rev)
	h.forks[w.Eid(rev.Hex())] = true
	err = a.Core.InsertEventAndRunConsensus(rev, false)
	h.actions["fork-attempts"]++
	cls := "ok"
	switch {
	case err == nil:
	case hg.IsNormalSelfParentError(err):
		cls = "selfparent-normal"
	default:
		cls = "other-error"
	}
	fmt.Fprintf(w.Out, "I %d %s => %s\n", a.ID, line, cls)
	if err == nil || a.Core.KnownEvents()[w.Peers[v].ID()] != known {
		w.Violation("C07", "fork-admitted", fmt.Sprintf("node=%d creator=%d second child of index %d accepted", a.ID, v, parent.Index()))
	} else {
		h.actions["fork-refused"]++
	}
	h.after(a, false)
	if len(a.Inserted) != before {
		w.Violation("C07", "fork-attempt-changed-the-dag", fmt.Sprintf("node=%d", a.ID))
	}
}

// armPassFault (-split -faults -passfaults): DIRECTED store-write fault inside ProcessDecidedRounds. While the
// first pending round r of node a is undecided and later rounds are already decided, no pass write happens
// (ProcessDecidedRounds stops at r). The insertion that finally decides r processes r, r+1, ... in ONE call:
// SetFrame(r), AddConsensusEvent for each event received in r, SetBlock(r), then the same for r+1. The
// number of events received in r is at most U = the undetermined events of round < r, so the (U+3+d)-th
// pass write from now falls into the processing of a LATER round of that same call.
func (h *hist) armPassFault(a *hx.Node) {
	if !h.cfg.passFaults || a.Faulty || !h.passArm[a.ID] {
		return
	}
	fs := h.faults[a.ID]
	if fs == nil || fs.FailPassWriteIn > 0 {
		return
	}
	prs := a.Hg.PendingRounds.GetOrderedPendingRounds()
	if len(prs) < 2 || prs[0].Decided {
		return
	}
	later := 0
	for _, pr := range prs[1:] {
		if pr.Decided {
			later++
		}
	}
	if later == 0 {
		return
	}
	r := prs[0].Index
	u := 0
	for _, x := range a.Hg.UndeterminedEvents {
		if ev, err := a.Store.GetEvent(x); err == nil {
			if er, ok := ev.VerifRound(); ok && er < r {
				u++
			}
		}
	}
	fs.FailPassWriteIn = u + 3 + h.rng.Intn(4)
	h.actions["pass-fault-armed"]++
}

// splitSchedule replaces the random action loop when -split is given.
func (h *hist) splitSchedule() {
	rng := h.rng
	n := h.cfg.n
	sc := &splitCtl{budget: h.cfg.steps, obsRate: []float64{0.05, 0.15, 0.4}[rng.Intn(3)], txRate: []float64{0.3, 0.6, 0.9}[rng.Intn(3)],
		debug: os.Getenv("VERIF_SPLITDEBUG") != ""}
	all := h.nodes[:n]
	if n < 4 {
		// too few validators for a split: monologues and ping-pong only
		h.randomGossip(sc, all, h.cfg.steps/2)
		if n >= 1 {
			h.monologue(sc, all[0], 3)
		}
		h.everybody()
		return
	}
	for sc.used < sc.budget {
		// random prelude: ordinary gossip among everybody (the base round of the episode varies)
		h.randomGossip(sc, all, rng.Intn(3*n))
		switch rng.Intn(6) {
		case 0:
			h.monologue(sc, all[rng.Intn(n)], 2+rng.Intn(6))
		case 1:
			if !h.cfg.dagrun {
				h.forkAttempt(h.nodes[rng.Intn(len(h.nodes))])
			}
		}
		if !h.splitEpisode(sc) {
			h.randomGossip(sc, all, 2*n)
		}
		// aftermath: the slowest node catches up many rounds late; a silent validator builds on a stale head
		if rng.Intn(2) == 0 {
			h.lateWitness(sc, all[rng.Intn(n)])
		}
		if rng.Intn(3) == 0 {
			h.everybody()
		}
		if !h.cfg.dagrun && rng.Intn(2) == 0 {
			h.forkAttempt(h.nodes[rng.Intn(len(h.nodes))])
		}
	}
	h.randomGossip(sc, all, 2*n)
	h.everybody()
}
