package main

// Stall-then-resume schedule (-stall K) and late block signatures (-latesigs), meant for the
// persistent small-cache node (-badgercache C: node 0 runs on a BadgerStore whose in-memory layer
// holds C items per cache) but also usable with in-memory stores only (undetermined backlog for
// C06 / C17).
//
//   warm-up   everybody gossips (random partners), transactions flow, blocks are produced;
//   stall     fewer than a super-majority of the validators keep gossiping for about K events: no
//             round can be decided, the undetermined events pile up (beyond C on the small-cache
//             node: they are evicted from the event LRU and re-read from the database, without
//             their private fields);
//   resume    everybody gossips again, the backlog is committed;
//   latesigs  one validator (not node 0) is cut off while the others produce more than C blocks;
//             when it comes back it commits and signs all of them at once, its next event carries
//             all these signatures: node 0 receives signatures for blocks that left its block LRU
//             long ago (Hashgraph.ProcessSigPool -> Store.GetBlock from the database -> SetBlock).
//
// persistOracle evaluates C02 and C04 on node 0 after every action, from what the node itself
// returns at that moment (rounds and frames are cache-only on a BadgerStore, so they are read when
// they are produced and the committed sequence is accumulated by the harness).

import (
	"fmt"
	"os"

	hg "github.com/mosaicnetworks/babble/src/hashgraph"
	"verifharness/hx"
)

type persistObs struct {
	pos       map[int]int // eid -> position in the committed sequence
	lt        map[int]int // eid -> Lamport timestamp computed by the harness from the DAG
	nextRound int         // next consensus round to examine
	nblocks   int         // deliveries examined
	started   bool
}

// dagLamport: 1 + max of the parents' (-1 for no parent), from the harness's own record of the DAG
func (h *hist) dagLamport(p *persistObs, eid int) int {
	if v, ok := p.lt[eid]; ok {
		return v
	}
	// iterative post-order (histories are long chains)
	stack := []int{eid}
	for len(stack) > 0 {
		x := stack[len(stack)-1]
		if _, ok := p.lt[x]; ok {
			stack = stack[:len(stack)-1]
			continue
		}
		ev := h.w.EvByEid[x]
		ready, max := true, -1
		for _, ph := range []string{ev.SelfParent(), ev.OtherParent()} {
			if ph == "" {
				continue
			}
			pe := h.w.Eid(ph)
			if pe < 0 {
				continue
			}
			if v, ok := p.lt[pe]; ok {
				if v > max {
					max = v
				}
			} else {
				ready = false
				stack = append(stack, pe)
			}
		}
		if ready {
			p.lt[x] = max + 1
			stack = stack[:len(stack)-1]
		}
	}
	return p.lt[eid]
}

func (h *hist) persistOracle(a *hx.Node) {
	w := h.w
	if h.pst == nil {
		h.pst = &persistObs{pos: map[int]int{}, lt: map[int]int{}}
	}
	p := h.pst
	h.actions["persist-oracle-evaluations"]++
	// C02: LastBlockIndex is the highest delivered index
	if len(a.Final) > 0 {
		if got, want := a.Store.LastBlockIndex(), a.Base+len(a.Final)-1; got != want {
			w.Violation("C02", "last-block-index-is-not-highest-delivered", fmt.Sprintf("node=%d LastBlockIndex=%d highest delivered=%d", a.ID, got, want))
		}
	}
	// C02: the database copy of every delivered block has the delivered body
	if h.badger != nil {
		for k := 0; k < len(a.Final); k++ {
			b, err := h.badger.VerifDBGetBlock(a.Base + k)
			if err != nil {
				w.Violation("C02", "delivered-block-not-in-database", fmt.Sprintf("node=%d index=%d", a.ID, a.Base+k))
				continue
			}
			if s := a.BlockBodyStr(b, false); s != a.FinalBody[k] {
				w.Violation("C02", "database-block-changed", fmt.Sprintf("node=%d index=%d was=[%s] now=[%s]", a.ID, k, a.FinalBody[k], s))
			}
		}
	}
	// C04: frames of the rounds processed since the last look
	if a.Hg.LastConsensusRound == nil {
		return
	}
	if !p.started {
		p.started = true
		if a.Hg.FirstConsensusRound != nil {
			p.nextRound = *a.Hg.FirstConsensusRound
		}
	}
	for r := p.nextRound; r <= *a.Hg.LastConsensusRound; r++ {
		f, err := a.Store.GetFrame(r)
		if err != nil {
			h.actions["persist-frame-unavailable"]++
			continue
		}
		h.actions["persist-frames-checked"]++
		for i, fe := range f.Events {
			eid := w.Eid(fe.Core.Hex())
			if eid < 0 {
				w.Violation("C04", "frame-event-unknown", fmt.Sprintf("node=%d round=%d pos=%d", a.ID, r, i))
				continue
			}
			if pp, dup := p.pos[eid]; dup {
				w.Violation("C04", "event-committed-twice", fmt.Sprintf("node=%d eid=%d positions=%d,%d round=%d", a.ID, eid, pp, len(p.pos), r))
				continue
			}
			ev := w.EvByEid[eid]
			for _, ph := range []string{ev.SelfParent(), ev.OtherParent()} {
				if ph == "" {
					continue
				}
				if _, ok := p.pos[w.Eid(ph)]; !ok {
					w.Violation("C04", "committed-before-its-parent", fmt.Sprintf("node=%d eid=%d round=%d frame-pos=%d parent=%d not committed yet (persistent node)", a.ID, eid, r, i, w.Eid(ph)))
				}
			}
			p.pos[eid] = len(p.pos)
			if i > 0 && fe.LamportTimestamp < f.Events[i-1].LamportTimestamp {
				w.Violation("C04", "frame-not-sorted-by-lamport", fmt.Sprintf("node=%d round=%d pos=%d", a.ID, r, i))
			}
			if want := h.dagLamport(p, eid); fe.LamportTimestamp != want {
				w.Violation("C04", "frame-lamport-differs-from-event", fmt.Sprintf("node=%d round=%d eid=%d frame=%d dag=%d (persistent node)", a.ID, r, eid, fe.LamportTimestamp, want))
			}
			want, got := []int{}, []int{}
			for _, tx := range ev.Transactions() {
				want = append(want, hx.TxSerialOf(tx))
			}
			for _, tx := range fe.Core.Transactions() {
				got = append(got, hx.TxSerialOf(tx))
			}
			if fmt.Sprint(got) != fmt.Sprint(want) {
				w.Violation("C04", "frame-event-payload-differs-from-created", fmt.Sprintf("node=%d round=%d eid=%d got=%v want=%v", a.ID, r, eid, tail(got), tail(want)))
			}
		}
	}
	p.nextRound = *a.Hg.LastConsensusRound + 1
	for ; p.nblocks < len(a.Final); p.nblocks++ {
		b := a.Final[p.nblocks]
		f, err := a.Store.GetFrame(b.RoundReceived())
		if err != nil {
			h.actions["persist-frame-unavailable"]++
			continue
		}
		want, got := []int{}, []int{}
		for _, fe := range f.Events {
			for _, tx := range fe.Core.Transactions() {
				want = append(want, hx.TxSerialOf(tx))
			}
		}
		for _, tx := range b.Transactions() {
			got = append(got, hx.TxSerialOf(tx))
		}
		if fmt.Sprint(got) != fmt.Sprint(want) {
			w.Violation("C04", "block-payload-is-not-frame-payload", fmt.Sprintf("node=%d block=%d got=%v want=%v", a.ID, p.nblocks, tail(got), tail(want)))
		}
		seen := map[int]bool{}
		for _, s := range got {
			if seen[s] {
				w.Violation("C05", "transaction-committed-twice", fmt.Sprintf("node=%d serial=%d block=%d", a.ID, s, p.nblocks))
			}
			seen[s] = true
		}
	}
}

func (h *hist) undetMax(l []*hx.Node) int {
	m := 0
	for _, c := range l {
		if n := len(c.Hg.UndeterminedEvents); n > m {
			m = n
		}
	}
	return m
}

// gossipTx: k plays among members with random partners; every creator has a transaction pending
func (h *hist) gossipTx(sc *splitCtl, members []*hx.Node, k int) {
	for i := 0; i < k; i++ {
		c := members[h.rng.Intn(len(members))]
		p := members[h.rng.Intn(len(members))]
		if c == p {
			i--
			continue
		}
		h.play(sc, c, h.headEid(p))
		if h.cfg.advsigs && i%3 == 0 && len(members) == h.cfg.n {
			h.advStep() // the harness-driven validator X takes part in the gossip of the full set
		}
	}
}

func (h *hist) stallSchedule() {
	rng := h.rng
	n := h.cfg.n
	all := h.nodes[:n]
	sc := &splitCtl{budget: 1 << 30, obsRate: 0, txRate: 0.8, debug: os.Getenv("VERIF_SPLITDEBUG") != ""}
	for _, c := range all {
		if c.Core.Head() == "" {
			h.play(sc, c, -1)
		}
	}
	if n < 2 {
		h.monologue(sc, all[0], 5)
		return
	}
	sm := 2*n/3 + 1
	// warm-up
	h.gossipTx(sc, all, 4*n+rng.Intn(2*n))
	blocksBefore := len(all[0].Final)
	// stall: an active set below the super-majority (node 0 in it or not)
	if n >= 3 && h.cfg.stall > 0 {
		K := h.cfg.stall + rng.Intn(h.cfg.stall/4+1)
		// supported window of the small-cache node: the store keeps a rolling window of C events per
		// validator and refuses to update an event older than that (TooLate). An undetermined event must
		// stay inside it, so one validator may create at most ~C/2 events during the stall.
		kmin := 2
		if c := h.cfg.badgerCache; c > 0 {
			for kmin*(c*45/100) < K && kmin < sm-1 {
				kmin++
			}
			if kmin*(c*45/100) < K {
				K = kmin * (c * 45 / 100)
			}
		}
		k := kmin
		if sm-1 > kmin {
			k = kmin + rng.Intn(sm-kmin)
		}
		active := []*hx.Node{}
		for _, i := range rng.Perm(n)[:k] {
			active = append(active, all[i])
		}
		h.gossipTx(sc, active, K)
		h.actions["stall-events"] += K
		h.actions["stall-active"] += k
		// what node 0 has not seen yet arrives now (or with the resume, one time out of two)
		if !contains(active, all[0]) && rng.Intn(2) == 0 {
			h.deliver(all[0], h.headEid(active[0]))
			h.deliver(all[0], h.headEid(active[len(active)-1]))
		}
		if u := h.undetMax(h.nodes); u > h.ds().stallUndetPeak {
			h.ds().stallUndetPeak = u
		}
	}
	// resume until the backlog is gone (bounded)
	for t := 0; t < 16 && (t < 2 || h.undetMax(all) > 6*n); t++ {
		h.gossipTx(sc, all, 2*n)
	}
	h.actions["stall-blocks-after-resume"] += len(all[0].Final) - blocksBefore
	if h.cfg.latesigs && h.cfg.badgerCache > 0 {
		h.lateSignatures(sc)
	}
	h.gossipTx(sc, all, 2*n)
	h.everybody()
}

// lateSignatures: the chain grows beyond the block cache of node 0 while the harness-driven validator X
// of -advsigs takes part in the gossip as usual; then X sends one event carrying its VALID signatures
// for old blocks, which node 0 no longer holds in memory (ProcessSigPool -> GetBlock from the database ->
// SetBlock); then the chain goes on. (A real validator cannot be that late without having been absent
// from the DAG for more rounds than the cache holds, which is outside the supported window: RoundInfo
// and the round memo are cache-only, and Hashgraph.GetFrame needs the rounds of the absent validator's
// last events for its Root.)
func (h *hist) lateSignatures(sc *splitCtl) {
	rng := h.rng
	n := h.cfg.n
	all := h.nodes[:n]
	if h.c09 == nil || len(h.c9().advs) == 0 {
		return
	}
	adv := h.c9().advs[0]
	sc.txRate = 1
	need := h.cfg.badgerCache + 4 + rng.Intn(6)
	errs := h.actions["split-insert-error"]
	wedged := func() bool { return h.actions["split-insert-error"] != errs }
	for t := 0; t < 40*need && len(all[0].Final) < need && !wedged(); t++ {
		c := all[rng.Intn(n)]
		p := all[rng.Intn(n)]
		if p == c {
			continue
		}
		h.play(sc, c, h.headEid(p))
		if t%3 == 0 {
			h.advStep()
		}
	}
	h.actions["latesigs-blocks-before"] += len(all[0].Final)
	if wedged() || len(all[0].Final) < need {
		h.actions["latesigs-not-reached"]++
		return
	}
	for round := 0; round < 2; round++ {
		if homes := h.advHomes(adv); len(homes) > 0 {
			h.lateSigEvent(adv, homes[rng.Intn(len(homes))])
		}
		// the chain goes on: the next blocks must get the next indexes
		for t := 0; t < 8*n && !wedged(); t++ {
			c := all[rng.Intn(n)]
			p := all[rng.Intn(n)]
			if p != c {
				h.play(sc, c, h.headEid(p))
			}
		}
	}
	sc.txRate = 0.8
}

// lateSigEvent: X's next event (built on b's head like every event of X) carries X's valid signatures of
// up to 3 blocks that node 0 has only in its database.
func (h *hist) lateSigEvent(adv *adversary, b *hx.Node) {
	w := h.w
	n0 := h.nodes[0]
	op, opCreator, opIndex, ok := h.advParents(adv, b)
	if !ok || h.badger == nil {
		return
	}
	ref := h.refNode(b)
	table := h.replayTable(ref)
	pub := h.advPub(adv)
	sigs := []hg.BlockSignature{}
	entries := []advSig{}
	for _, k := range h.rng.Perm(len(ref.Final)) {
		blk := ref.Final[k]
		if len(sigs) >= 3 {
			break
		}
		if _, err := h.badger.VerifInmem().GetBlock(blk.Index()); err == nil {
			continue // still cached on node 0
		}
		if _, err := h.badger.VerifDBGetBlock(blk.Index()); err != nil || blk.Index() >= len(n0.Final) {
			continue
		}
		if !memberOrd(lookup(table, blk.RoundReceived()), adv.ord) {
			continue
		}
		hash, _ := blk.Body.Hash()
		sig := h.validSig(adv, blk.Index(), hash, false)
		sigs = append(sigs, hg.BlockSignature{Validator: pub, Index: blk.Index(), Signature: sig})
		entries = append(entries, advSig{kind: "valid", recordable: true, ord: adv.ord, index: blk.Index(), sig: sig})
	}
	if len(sigs) == 0 {
		h.actions["latesigs-no-evicted-block"]++
		return
	}
	ev := hg.NewEvent(nil, nil, sigs, []string{adv.head, op}, pub, adv.seq+1)
	ev.Sign(w.Privs[adv.ord])
	ev.SetWireInfo(adv.seq, opCreator, opIndex, w.Peers[adv.ord].ID())
	wev := ev.ToWire()
	s := h.c9()
	for _, e := range entries {
		e := e
		if _, dup := s.sent[sentKey(e.ord, e.index, e.sig)]; !dup {
			s.sent[sentKey(e.ord, e.index, e.sig)] = &e
		}
	}
	if !h.advDeliver(b, adv, wev, ev, entries, true) {
		return
	}
	adv.head, adv.seq = ev.Hex(), adv.seq+1
	adv.history = append(adv.history, entries...)
	h.actions["latesigs-events"]++
	h.actions["latesigs-for-evicted-blocks"] += len(sigs)
	for _, nd := range h.nodes {
		if nd == b || nd.Silent || nd.Core == nil {
			continue
		}
		if nd.Faulty {
			h.deliver(nd, w.Eid(ev.Hex())) // node 0 (not model-compared): through the same wire path, no self-event
		} else {
			h.advDeliver(nd, adv, wev, ev, entries, false)
		}
	}
}

// longSilentSchedule (-longsilent K, meant for -live and -inmemcache0 C with K > C): after a warm-up a
// minority of the validators (never node 0) goes silent for good; the others keep gossiping for about K
// events, so that the silent validators' last events become the oldest entries of every event cache;
// the fair suffix of -live follows (liveness.go).
func (h *hist) longSilentSchedule() {
	rng := h.rng
	n := h.cfg.n
	all := h.nodes[:n]
	sc := &splitCtl{budget: 1 << 30, obsRate: 0, txRate: 0.7}
	for _, c := range all {
		if c.Core.Head() == "" {
			h.play(sc, c, -1)
		}
	}
	if n < 2 {
		return
	}
	h.gossipTx(sc, all, 5*n+rng.Intn(3*n))
	maxSilent := (n - 1) / 3
	if maxSilent > 0 {
		k := 1 + rng.Intn(maxSilent)
		for _, i := range rng.Perm(n - 1)[:k] {
			all[1+i].Silent = true
		}
		h.actions["silenced"] += k
	}
	live := []*hx.Node{}
	for _, c := range all {
		if !c.Silent {
			live = append(live, c)
		}
	}
	K := h.cfg.longSil + rng.Intn(h.cfg.longSil/5+1)
	h.gossipTx(sc, live, K)
	h.actions["longsilent-events"] += K
	// adversarial end of the prefix: some live nodes lag, some have transactions pending
	for _, c := range live {
		if rng.Intn(2) == 0 {
			h.submit(c)
		}
	}
}

var _ = hg.NewInmemStore
