package main

// Distribution report (Z line) and the round-received rule oracle.
//
// observe(a) is called after every action of node a. It measures, on the implementation only:
//   - fame decisions by distance (round of the deciding witness minus round of the decided one),
//     recomputed from the node's own store with an independent transcription of the voting rule;
//   - coin-round votes (middle bit actually used / vote forced by a super-majority in a coin round);
//   - actions after which a LATER pending round is decided while an EARLIER one is not (inversion);
//   - pending-round backlog, undetermined-event backlog, how far the node is behind the global DAG;
// and evaluates the round-received rule (C03/C04: "an event is received in the first round in
// which all famous witnesses see it, provided all earlier rounds are decided") on every event that
// obtained a round-received during the action.

import (
	"fmt"
	"sort"

	"github.com/mosaicnetworks/babble/src/common"
	hg "github.com/mosaicnetworks/babble/src/hashgraph"
	"verifharness/hx"
)

type nodeObs struct {
	fameDone map[int]bool // witness eid -> decision already counted
	scanFrom int          // lowest round that may hold an uncounted decision
	rcvLen   map[int]int  // round -> number of received events already checked
	rcvFrom  int
}

type distStats struct {
	fam            map[int]map[int]string // node id -> round -> famous witnesses (eids) when the round was first seen decided
	per            map[int]*nodeObs
	maxPending     int
	maxUndet       int
	maxBehind      int
	maxFameDist    int
	maxRound       int
	stallUndetPeak int
}

func (h *hist) ds() *distStats {
	if h.dist == nil {
		h.dist = &distStats{per: map[int]*nodeObs{}, fam: map[int]map[int]string{}}
	}
	return h.dist
}

func (h *hist) nobs(a *hx.Node) *nodeObs {
	d := h.ds()
	o := d.per[a.ID]
	if o == nil {
		o = &nodeObs{fameDone: map[int]bool{}, rcvLen: map[int]int{}}
		d.per[a.ID] = o
	}
	return o
}

// sees: y has x among its ancestors (transcription of Hashgraph._ancestor on the stored coordinates)
func seesEv(ey, ex *hg.Event) bool {
	if ey.Hex() == ex.Hex() {
		return true
	}
	c, ok := ey.VerifLastAncestors()[ex.Creator()]
	return ok && c.Index >= ex.Index()
}

// stronglySeesEv: transcription of Hashgraph._stronglySee
func stronglySeesEv(ey, ew *hg.Event, pubs []string, sm int) bool {
	c := 0
	la, fd := ey.VerifLastAncestors(), ew.VerifFirstDescendants()
	for _, p := range pubs {
		x, xok := la[p]
		y, yok := fd[p]
		if xok && yok && x.Index >= y.Index {
			c++
		}
	}
	return c >= sm
}

func (h *hist) roundWitnesses(a *hx.Node, r int) []*hg.Event {
	ri, err := a.Store.GetRound(r)
	if err != nil {
		return nil
	}
	ws := []*hg.Event{}
	for _, x := range ri.Witnesses() {
		if ev, err := a.Store.GetEvent(x); err == nil {
			ws = append(ws, ev)
		}
	}
	sort.Slice(ws, func(i, j int) bool { return h.w.Eid(ws[i].Hex()) < h.w.Eid(ws[j].Hex()) })
	return ws
}

func peerPubs(a *hx.Node, r int) ([]string, int, bool) {
	ps, err := a.Store.GetPeerSet(r)
	if err != nil {
		return nil, 0, false
	}
	pubs := []string{}
	for p := range ps.ByPubKey {
		pubs = append(pubs, p)
	}
	return pubs, ps.SuperMajority(), true
}

// fameDistance recomputes, on a's store as it is now, the votes on witness x of round r and
// returns the distance at which a decision is reached (-1: none), the decided value, and the
// numbers of coin-round votes taken from the middle bit / forced by a super-majority on the way.
func (h *hist) fameDistance(a *hx.Node, r int, x *hg.Event) (dist int, val bool, coinBit, coinForced int) {
	votes := map[string]bool{}
	if h.voteTrace != nil {
		defer func() {
			for j := r + 1; j <= a.Store.LastRound(); j++ {
				line := fmt.Sprintf("round %d:", j)
				for _, y := range h.roundWitnesses(a, j) {
					if v, ok := votes[y.Hex()]; ok {
						line += fmt.Sprintf(" c%d=%v", h.w.Ord(y.Creator()), v)
					}
				}
				*h.voteTrace = append(*h.voteTrace, line)
			}
		}()
	}
	for j := r + 1; j <= a.Store.LastRound(); j++ {
		ws := h.roundWitnesses(a, j)
		_, smj, ok := peerPubs(a, j)
		if !ok {
			return -1, false, coinBit, coinForced
		}
		diff := j - r
		if diff == 1 {
			for _, y := range ws {
				votes[y.Hex()] = seesEv(y, x)
			}
			continue
		}
		prev := h.roundWitnesses(a, j-1)
		ppubs, psm, ok := peerPubs(a, j-1)
		if !ok {
			return -1, false, coinBit, coinForced
		}
		for _, y := range ws {
			yays, nays := 0, 0
			for _, w := range prev {
				if stronglySeesEv(y, w, ppubs, psm) {
					if votes[w.Hex()] {
						yays++
					} else {
						nays++
					}
				}
			}
			v, t := false, nays
			if yays >= nays {
				v, t = true, yays
			}
			if diff%4 != 0 {
				votes[y.Hex()] = v
				if t >= smj {
					return diff, v, coinBit, coinForced
				}
			} else if t >= smj {
				votes[y.Hex()] = v
				coinForced++
				if v != hg.VerifMiddleBit(y.Hex()) {
					h.forcedDiffers++
				}
			} else {
				votes[y.Hex()] = hg.VerifMiddleBit(y.Hex())
				coinBit++
			}
		}
	}
	return -1, false, coinBit, coinForced
}

// famousSets (C01): two nodes that both have decided round r have the same set of famous witnesses for it.
func (h *hist) famousSets(a *hx.Node, r int, ri *hg.RoundInfo) {
	d := h.ds()
	if !ri.VerifDecided() {
		return
	}
	if d.fam[a.ID] == nil {
		d.fam[a.ID] = map[int]string{}
	}
	if _, seen := d.fam[a.ID][r]; seen {
		return
	}
	ids := []int{}
	for _, f := range ri.FamousWitnesses() {
		ids = append(ids, h.w.Eid(f))
	}
	sort.Ints(ids)
	mine := fmt.Sprint(ids)
	d.fam[a.ID][r] = mine
	h.actions["famous-sets-compared"]++
	for _, o := range h.nodes {
		if o == a || o.WasReset {
			continue
		}
		if other, ok := d.fam[o.ID][r]; ok && other != mine {
			h.w.Violation("C01", "famous-witness-sets-differ", fmt.Sprintf("round=%d node%d=%s node%d=%s", r, a.ID, mine, o.ID, other))
		}
	}
}

func distKey(d int) string {
	switch {
	case d < 0:
		return "fame-d-unexplained"
	case d <= 4:
		return fmt.Sprintf("fame-d%d", d)
	case d <= 8:
		return "fame-d5to8"
	}
	return "fame-d9plus"
}

func (h *hist) observe(a *hx.Node) {
	d := h.ds()
	o := h.nobs(a)
	prs := a.Hg.PendingRounds.GetOrderedPendingRounds()
	if len(prs) > d.maxPending {
		d.maxPending = len(prs)
	}
	undecidedSeen, inversion := false, false
	for _, pr := range prs {
		if !pr.Decided {
			undecidedSeen = true
		} else if undecidedSeen {
			inversion = true
		}
	}
	if inversion {
		h.actions["later-round-decided-first"]++
	}
	if n := len(a.Hg.UndeterminedEvents); n > d.maxUndet {
		d.maxUndet = n
	}
	if b := len(h.w.EvByEid) - len(a.Inserted); b > d.maxBehind && !a.WasReset {
		d.maxBehind = b
	}
	last := a.Store.LastRound()
	if last > d.maxRound {
		d.maxRound = last
	}
	if a.WasReset {
		return
	}
	// newly decided witnesses
	lowestOpen := last + 1
	for r := o.scanFrom; r <= last; r++ {
		ri, err := a.Store.GetRound(r)
		if err != nil {
			continue
		}
		h.famousSets(a, r, ri)
		open := false
		for x, re := range ri.CreatedEvents {
			if !re.Witness {
				continue
			}
			if re.Famous == common.Undefined {
				if !ri.VerifDecided() {
					open = true
				}
				continue
			}
			eid := h.w.Eid(x)
			if o.fameDone[eid] {
				continue
			}
			o.fameDone[eid] = true
			ev, err := a.Store.GetEvent(x)
			if err != nil {
				continue
			}
			h.forcedDiffers = 0
			dist, _, cb, cf := h.fameDistance(a, r, ev)
			h.actions[distKey(dist)]++
			if dist > d.maxFameDist {
				d.maxFameDist = dist
			}
			if dist > 4 {
				h.actions["coin-votes-middle-bit"] += cb
				h.actions["coin-votes-forced"] += cf
				h.actions["forced-vote-differs-from-coin"] += h.forcedDiffers
				h.actions["fame-decided-after-coin-round"]++
			}
		}
		if open && r < lowestOpen {
			lowestOpen = r
		}
	}
	if lowestOpen > last {
		lowestOpen = last
	}
	if lowestOpen > o.scanFrom {
		o.scanFrom = lowestOpen
	}
	h.rrRule(a, o)
}

// rrRule: every event that obtained round-received i during this action: (1) all famous witnesses
// of round i see it and they are a super-majority, (2) every round strictly between the event's
// round and i is decided (right now), (3) none of these rounds already qualified.
func (h *hist) rrRule(a *hx.Node, o *nodeObs) {
	w := h.w
	last := a.Store.LastRound()
	for i := o.rcvFrom; i <= last; i++ {
		ri, err := a.Store.GetRound(i)
		if err != nil {
			continue
		}
		done := o.rcvLen[i]
		if len(ri.ReceivedEvents) <= done {
			continue
		}
		for _, x := range ri.ReceivedEvents[done:] {
			ev, err := a.Store.GetEvent(x)
			if err != nil {
				continue
			}
			h.actions["rr-rule-checked"]++
			r, ok := ev.VerifRound()
			if !ok {
				continue
			}
			for k := r + 1; k <= i; k++ {
				rk, err := a.Store.GetRound(k)
				if err != nil {
					continue
				}
				_, smk, ok := peerPubs(a, k)
				if !ok {
					continue
				}
				decided := rk.VerifDecided()
				if !decided {
					// not flagged yet: decided iff no undecided witness and a super-majority decided
					c, und := 0, false
					for _, re := range rk.CreatedEvents {
						if re.Witness && re.Famous == common.Undefined {
							und = true
						} else if re.Witness {
							c++
						}
					}
					decided = !und && c >= smk
				}
				if !decided {
					w.Violation("C03", "round-received-past-undecided-round",
						fmt.Sprintf("node=%d eid=%d round=%d round-received=%d but round %d is not decided", a.ID, w.Eid(x), r, i, k))
					break
				}
				fws := rk.FamousWitnesses()
				all := len(fws) >= smk
				for _, f := range fws {
					fe, err := a.Store.GetEvent(f)
					if err != nil || !seesEv(fe, ev) {
						all = false
					}
				}
				if k < i && all {
					w.Violation("C03", "round-received-not-first-qualifying-round",
						fmt.Sprintf("node=%d eid=%d round=%d round-received=%d but all %d famous witnesses of decided round %d see it", a.ID, w.Eid(x), r, i, len(fws), k))
					break
				}
				if k == i && !all {
					w.Violation("C03", "round-received-not-seen-by-all-famous-witnesses",
						fmt.Sprintf("node=%d eid=%d round=%d round-received=%d famous=%d", a.ID, w.Eid(x), r, i, len(fws)))
				}
			}
		}
		o.rcvLen[i] = len(ri.ReceivedEvents)
	}
	if a.Hg.LastConsensusRound != nil && *a.Hg.LastConsensusRound > o.rcvFrom {
		o.rcvFrom = *a.Hg.LastConsensusRound // rounds at or below the last processed one no longer receive events
	}
}

// distInto: end-of-history part of the Z line.
func (h *hist) distInto(st map[string]int) {
	d := h.ds()
	late := 0
	for _, a := range h.nodes {
		if a.WasReset {
			continue
		}
		for r := 0; r <= a.Store.LastRound(); r++ {
			ri, err := a.Store.GetRound(r)
			if err != nil || !ri.VerifDecided() {
				continue
			}
			for _, re := range ri.CreatedEvents {
				if re.Witness && re.Famous == common.Undefined {
					late++
				}
			}
		}
	}
	st["a:late-witnesses"] = late
	st["mx:rounds"] = d.maxRound
	st["mx:pending-rounds"] = d.maxPending
	st["mx:undetermined"] = d.maxUndet
	st["mx:behind"] = d.maxBehind
	st["mx:fame-distance"] = d.maxFameDist
}
