// Command store: the real BadgerStore vs the Coq store model (C16), one line per operation.
//
//   S <seq> <cache> NEW <D|U>                        start of a sequence (D disciplined, U undisciplined)
//   S <seq> <cache> <op tokens> => <result tokens>   one executed operation with the store's answer
//   W <W1..W5> seq=.. cs=.. op=.. impl=.. want=..    documented deviation from the plain map (oracle)
//   V C16 <class> seq=.. cs=.. op=.. impl=.. want=.. UNDOCUMENTED deviation from the plain map (oracle)
//   Z <seq> <cache> <D|U> ...                        statistics of the sequence
//
// op tokens:     AddP c | SetEvent id c idx topo payload | GetEvent id | PEvents c skip | PEvent c idx
//                | LastFrom c | Known | SetBlock idx payload | GetBlock i | LastBlock | SetRound r p
//                | GetRound r | SetFrame r p | GetFrame r | DbRound r | DbFrame r | DbTopo start count | Reopen
// result tokens: Unit | Err <kind> | Event id c idx topo payload | Ids x.. | Id x | Known c:last..
//                | Block idx payload | Z z | Events id:c:idx:topo:payload..
//
// The S lines are replayed by runner/storedrv.ml on the extracted model (Store.bstep).  Independently
// of the model, the PROPERTY ORACLE keeps a plain Go map of the ACKNOWLEDGED writes of every
// disciplined sequence and compares every read covered by C16_refines_map with it.
//
// Discipline (wf_ops, relative to the acknowledged history): a new event has an added creator,
// index = number of that creator's acknowledged events, topological index = the running counter;
// an update keeps creator / index / topological index; skip >= -1, start >= 0.  In "burn"
// sequences the topological counter behaves like Hashgraph.InsertEvent: it is incremented BEFORE
// SetEvent, so a rejected new event leaves its topological index unused (deviation W3).
package main

import (
	"bufio"
	"flag"
	"fmt"
	"io"
	"math/rand"
	"os"
	"sort"
	"strconv"
	"strings"
	"time"

	cm "github.com/mosaicnetworks/babble/src/common"
	hg "github.com/mosaicnetworks/babble/src/hashgraph"
	"github.com/mosaicnetworks/babble/src/peers"
	"github.com/sirupsen/logrus"
)

const nCreators = 4

var (
	w      *bufio.Writer
	quiet  *logrus.Entry
	totOps int
	totV   int
	totW   int
)

type evRec struct {
	id, c, idx, topo, payload int
	proto                     *hg.Event
}

// plain map of the acknowledged writes
type oracle struct {
	parts     []int
	events    map[int]*evRec
	part      map[int][]int
	topo      map[int]int
	blocks    map[int]int
	rounds    map[int]int
	frames    map[int]int
	lastBlock int
}

func newOracle() *oracle {
	return &oracle{events: map[int]*evRec{}, part: map[int][]int{}, topo: map[int]int{},
		blocks: map[int]int{}, rounds: map[int]int{}, frames: map[int]int{}, lastBlock: -1}
}

type run struct {
	rng      *rand.Rand
	seq, cs  int
	disc     bool
	burn     bool
	dir      string
	store    *hg.BadgerStore
	pub      [nCreators][]byte
	pubHex   [nCreators]string
	byPub    map[string]int
	byHex    map[string]*evRec
	all      []*evRec // every event object ever submitted (acknowledged or not), by first submission
	acked    []*evRec
	nextID   int
	psRound  int
	ntopo    int         // topological counter
	burned   map[int]bool // topological indexes left unused by a rejected new event
	reopened bool
	o        *oracle
	// statistics
	kinds, errs, ws map[string]int
	reopens, evict  int
	epoch           [4]map[int]bool
	nops            int
}

func tag(disc bool) string {
	if disc {
		return "D"
	}
	return "U"
}

func errKind(err error) string {
	switch {
	case cm.IsStore(err, cm.TooLate):
		return "TooLate"
	case cm.IsStore(err, cm.SkippedIndex):
		return "SkippedIndex"
	case cm.IsStore(err, cm.UnknownParticipant):
		return "UnknownParticipant"
	case cm.IsStore(err, cm.Empty):
		return "Empty"
	case cm.IsStore(err, cm.KeyAlreadyExists):
		return "KeyAlreadyExists"
	default:
		return "KeyNotFound"
	}
}

func die(format string, a ...interface{}) {
	w.Flush()
	fmt.Fprintf(os.Stderr, "store harness: "+format+"\n", a...)
	os.Exit(2)
}

func (r *run) open() {
	s, err := hg.NewBadgerStore(r.cs, r.dir, false, quiet)
	if err != nil {
		die("open: %v", err)
	}
	r.store = s
}

func (r *run) addPeer(c int, inmemOnly bool) {
	ps := peers.NewPeerSet([]*peers.Peer{peers.NewPeer(r.pubHex[c], "", "")})
	r.psRound++
	var err error
	if inmemOnly {
		err = r.store.VerifInmem().SetPeerSet(r.psRound, ps)
	} else {
		err = r.store.SetPeerSet(r.psRound, ps)
	}
	if err != nil {
		die("SetPeerSet: %v", err)
	}
}

func (r *run) emit(op, res string) {
	fmt.Fprintf(w, "S %d %d %s => %s\n", r.seq, r.cs, op, res)
	r.kinds[strings.SplitN(op, " ", 2)[0]]++
	if strings.HasPrefix(res, "Err ") {
		r.errs[res[4:]]++
	}
	r.nops++
	totOps++
}

func (r *run) verdict(class, op, impl, want string) {
	if strings.HasPrefix(class, "W") {
		fmt.Fprintf(w, "W %s seq=%d cs=%d op=%s impl=%s want=%s\n", class, r.seq, r.cs,
			strings.ReplaceAll(op, " ", "_"), strings.ReplaceAll(impl, " ", "_"), strings.ReplaceAll(want, " ", "_"))
		r.ws[class]++
		totW++
		return
	}
	fmt.Fprintf(w, "V C16 %s seq=%d cs=%d op=%s impl=%s want=%s\n", class, r.seq, r.cs,
		strings.ReplaceAll(op, " ", "_"), strings.ReplaceAll(impl, " ", "_"), strings.ReplaceAll(want, " ", "_"))
	r.ws["V"]++
	totV++
}

// compare a read with the plain map; devClass = documented deviation class when a difference is
// excused ("" = none: any difference is a violation)
func (r *run) compare(op, impl, want, devClass, vclass string) {
	if !r.disc || impl == want {
		return
	}
	if devClass != "" {
		r.verdict(devClass, op, impl, want)
	} else {
		r.verdict(vclass, op, impl, want)
	}
}

func (r *run) evStr(e *hg.Event, sep string) string {
	m, ok := r.byHex[e.Hex()]
	if !ok {
		die("unknown event returned by the store")
	}
	c, ok := r.byPub[e.Creator()]
	if !ok {
		die("unknown creator returned by the store")
	}
	p, err := strconv.Atoi(e.Signature)
	if err != nil {
		die("payload lost: %q", e.Signature)
	}
	return strings.Join([]string{strconv.Itoa(m.id), strconv.Itoa(c), strconv.Itoa(e.Index()),
		strconv.Itoa(e.VerifTopologicalIndex()), strconv.Itoa(p)}, sep)
}

func recStr(m *evRec, sep string) string {
	return strings.Join([]string{strconv.Itoa(m.id), strconv.Itoa(m.c), strconv.Itoa(m.idx),
		strconv.Itoa(m.topo), strconv.Itoa(m.payload)}, sep)
}

func (r *run) idOf(hex string) string {
	m, ok := r.byHex[hex]
	if !ok {
		die("unknown event hash returned by the store")
	}
	return strconv.Itoa(m.id)
}

func idsStr(prefix string, l []string) string {
	if len(l) == 0 {
		return prefix
	}
	return prefix + " " + strings.Join(l, " ")
}

func (r *run) touch(cache, key int) {
	r.epoch[cache][key] = true
}

func (r *run) closeEpoch() {
	for i := range r.epoch {
		if n := len(r.epoch[i]) - r.cs; n > 0 {
			r.evict += n
		}
		r.epoch[i] = map[int]bool{}
	}
}

/* ---------------------------------------------------------------- operations */

func (r *run) opAddP(c int) {
	r.addPeer(c, false)
	seen := false
	for _, a := range r.o.parts {
		seen = seen || a == c
	}
	if !seen {
		r.o.parts = append(r.o.parts, c)
	}
	r.emit(fmt.Sprintf("AddP %d", c), "Unit")
}

// submit an event (new object every time: value semantics)
func (r *run) opSetEvent(m *evRec, topo, payload int, isNew bool) {
	e := &hg.Event{Body: m.proto.Body, Signature: strconv.Itoa(payload)}
	e.VerifSetTopologicalIndex(topo)
	if e.Hex() != m.proto.Hex() {
		die("hash changed")
	}
	err := r.store.SetEvent(e)
	op := fmt.Sprintf("SetEvent %d %d %d %d %d", m.id, m.c, m.idx, topo, payload)
	if err != nil {
		k := errKind(err)
		r.emit(op, "Err "+k)
		if r.disc {
			switch {
			case !isNew && k == "TooLate":
				r.verdict("W1", op, "Err "+k, "Unit")
			case r.reopened && (k == "SkippedIndex" || k == "TooLate"):
				r.verdict("W3", op, "Err "+k, "Unit")
			default:
				r.verdict("write-rejected", op, "Err "+k, "Unit")
			}
			if isNew && r.burn {
				r.burned[topo] = true
			}
		}
		return
	}
	r.emit(op, "Unit")
	r.touch(0, m.id)
	if old, ok := r.o.events[m.id]; ok {
		old.payload = payload
		old.topo = topo
	} else {
		rec := &evRec{id: m.id, c: m.c, idx: m.idx, topo: topo, payload: payload, proto: m.proto}
		r.o.events[m.id] = rec
		r.o.part[m.c] = append(r.o.part[m.c], m.id)
		r.o.topo[topo] = m.id
		r.acked = append(r.acked, m)
	}
}

func (r *run) newEvent(c, idx int) *evRec {
	r.nextID++
	e := hg.NewEvent([][]byte{[]byte(fmt.Sprintf("s%d-e%d", r.seq, r.nextID))}, nil, nil,
		[]string{"", ""}, r.pub[c], idx)
	e.Body.Timestamp = int64(r.nextID)
	m := &evRec{id: r.nextID, c: c, idx: idx, proto: e}
	r.byHex[e.Hex()] = m
	r.all = append(r.all, m)
	return m
}

func (r *run) opGetEvent(m *evRec) {
	var op, impl string
	var e *hg.Event
	var err error
	if m == nil {
		op = "GetEvent 999999"
		e, err = r.store.GetEvent("0XDEADBEEF")
	} else {
		op = fmt.Sprintf("GetEvent %d", m.id)
		e, err = r.store.GetEvent(m.proto.Hex())
	}
	if err != nil {
		impl = "Err " + errKind(err)
	} else {
		impl = "Event " + r.evStr(e, " ")
	}
	r.emit(op, impl)
	want := "Err KeyNotFound"
	if m != nil {
		if rec, ok := r.o.events[m.id]; ok {
			want = "Event " + recStr(rec, " ")
		}
	}
	r.compare(op, impl, want, "", "event-read")
}

func (r *run) opPEvents(c, skip int) {
	l, err := r.store.ParticipantEvents(r.pubHex[c], skip)
	if err != nil {
		die("ParticipantEvents returned an error: %v", err)
	}
	ids := []string{}
	for _, h := range l {
		ids = append(ids, r.idOf(h))
	}
	op := fmt.Sprintf("PEvents %d %d", c, skip)
	impl := idsStr("Ids", ids)
	r.emit(op, impl)
	wl := []string{}
	for i, id := range r.o.part[c] {
		if i > skip {
			wl = append(wl, strconv.Itoa(id))
		}
	}
	dev := ""
	if skip < -1 {
		dev = "W5"
	} else if r.reopened {
		dev = "W2"
	}
	r.compare(op, impl, idsStr("Ids", wl), dev, "participant-listing")
}

func (r *run) opPEvent(c, idx int) {
	h, err := r.store.ParticipantEvent(r.pubHex[c], idx)
	op := fmt.Sprintf("PEvent %d %d", c, idx)
	impl := "Err KeyNotFound"
	if err == nil {
		impl = "Id " + r.idOf(h)
	}
	r.emit(op, impl)
	want := "Err KeyNotFound"
	if idx >= 0 && idx < len(r.o.part[c]) {
		want = "Id " + strconv.Itoa(r.o.part[c][idx])
	}
	r.compare(op, impl, want, "", "participant-event")
}

func (r *run) opLastFrom(c int) {
	h, err := r.store.LastEventFrom(r.pubHex[c])
	op := fmt.Sprintf("LastFrom %d", c)
	impl := ""
	if err != nil {
		impl = "Err " + errKind(err)
	} else {
		impl = "Id " + r.idOf(h)
	}
	r.emit(op, impl)
	want := "Err UnknownParticipant"
	for _, a := range r.o.parts {
		if a == c {
			want = "Err Empty"
			if n := len(r.o.part[c]); n > 0 {
				want = "Id " + strconv.Itoa(r.o.part[c][n-1])
			}
		}
	}
	dev := ""
	if r.reopened {
		dev = "W2"
	}
	r.compare(op, impl, want, dev, "last-event")
}

func (r *run) opKnown() {
	known := r.store.KnownEvents()
	if len(known) != len(r.o.parts) {
		die("KnownEvents has %d entries, %d participants were added", len(known), len(r.o.parts))
	}
	items, wl := []string{}, []string{}
	for _, c := range r.o.parts {
		last, ok := known[peers.NewPeer(r.pubHex[c], "", "").ID()]
		if !ok {
			die("KnownEvents misses a participant")
		}
		items = append(items, fmt.Sprintf("%d:%d", c, last))
		wl = append(wl, fmt.Sprintf("%d:%d", c, len(r.o.part[c])-1))
	}
	impl := idsStr("Known", items)
	r.emit("Known", impl)
	dev := ""
	if r.reopened {
		dev = "W2"
	}
	r.compare("Known", impl, idsStr("Known", wl), dev, "known-events")
}

func (r *run) opSetBlock(idx, p int) {
	b := hg.NewBlock(idx, p, []byte{}, []*peers.Peer{}, [][]byte{[]byte("tx")}, nil, int64(p))
	if err := r.store.SetBlock(b); err != nil {
		die("SetBlock: %v", err)
	}
	r.emit(fmt.Sprintf("SetBlock %d %d", idx, p), "Unit")
	r.touch(1, idx)
	r.o.blocks[idx] = p
	if idx > r.o.lastBlock {
		r.o.lastBlock = idx
	}
}

func (r *run) opGetBlock(idx int) {
	b, err := r.store.GetBlock(idx)
	op := fmt.Sprintf("GetBlock %d", idx)
	impl := ""
	if err != nil {
		impl = "Err " + errKind(err)
	} else {
		if b.Body.Timestamp != int64(b.RoundReceived()) {
			die("block body not preserved")
		}
		impl = fmt.Sprintf("Block %d %d", b.Index(), b.RoundReceived())
	}
	r.emit(op, impl)
	want := "Err KeyNotFound"
	if p, ok := r.o.blocks[idx]; ok {
		want = fmt.Sprintf("Block %d %d", idx, p)
	}
	r.compare(op, impl, want, "", "block-read")
}

func (r *run) opLastBlock() {
	impl := fmt.Sprintf("Z %d", r.store.LastBlockIndex())
	r.emit("LastBlock", impl)
	dev := ""
	if r.reopened {
		dev = "W2"
	}
	r.compare("LastBlock", impl, fmt.Sprintf("Z %d", r.o.lastBlock), dev, "last-block")
}

func (r *run) opSetRound(rd, p int) {
	ri := hg.NewRoundInfo()
	ri.ReceivedEvents = []string{strconv.Itoa(p)}
	if err := r.store.SetRound(rd, ri); err != nil {
		die("SetRound: %v", err)
	}
	r.emit(fmt.Sprintf("SetRound %d %d", rd, p), "Unit")
	r.touch(2, rd)
	r.o.rounds[rd] = p
}

func roundRes(ri *hg.RoundInfo, err error, raw bool) string {
	if err != nil {
		if raw {
			return "Err KeyNotFound"
		}
		return "Err " + errKind(err)
	}
	return "Z " + ri.ReceivedEvents[0]
}

func zRes(m map[int]int, k int) string {
	if p, ok := m[k]; ok {
		return fmt.Sprintf("Z %d", p)
	}
	return "Err KeyNotFound"
}

func (r *run) opGetRound(rd int) {
	ri, err := r.store.GetRound(rd)
	op := fmt.Sprintf("GetRound %d", rd)
	impl := roundRes(ri, err, false)
	r.emit(op, impl)
	r.compare(op, impl, zRes(r.o.rounds, rd), "W4", "")
}

func (r *run) opDbRound(rd int) {
	ri, err := r.store.VerifDBGetRound(rd)
	op := fmt.Sprintf("DbRound %d", rd)
	impl := roundRes(ri, err, true)
	r.emit(op, impl)
	r.compare(op, impl, zRes(r.o.rounds, rd), "", "db-round")
}

func (r *run) opSetFrame(rd, p int) {
	f := &hg.Frame{Round: rd, Timestamp: int64(p), Roots: map[string]*hg.Root{}, PeerSets: map[int][]*peers.Peer{}}
	if err := r.store.SetFrame(f); err != nil {
		die("SetFrame: %v", err)
	}
	r.emit(fmt.Sprintf("SetFrame %d %d", rd, p), "Unit")
	r.touch(3, rd)
	r.o.frames[rd] = p
}

func frameRes(f *hg.Frame, err error, raw bool) string {
	if err != nil {
		if raw {
			return "Err KeyNotFound"
		}
		return "Err " + errKind(err)
	}
	return fmt.Sprintf("Z %d", f.Timestamp)
}

func (r *run) opGetFrame(rd int) {
	f, err := r.store.GetFrame(rd)
	op := fmt.Sprintf("GetFrame %d", rd)
	impl := frameRes(f, err, false)
	r.emit(op, impl)
	r.compare(op, impl, zRes(r.o.frames, rd), "W4", "")
}

func (r *run) opDbFrame(rd int) {
	f, err := r.store.VerifDBGetFrame(rd)
	op := fmt.Sprintf("DbFrame %d", rd)
	impl := frameRes(f, err, true)
	r.emit(op, impl)
	r.compare(op, impl, zRes(r.o.frames, rd), "", "db-frame")
}

func (r *run) opDbTopo(start, count int) {
	l, err := r.store.VerifDBTopologicalEvents(start, count)
	op := fmt.Sprintf("DbTopo %d %d", start, count)
	impl := "Err KeyNotFound"
	if err == nil {
		items := []string{}
		for _, e := range l {
			items = append(items, r.evStr(e, ":"))
		}
		impl = idsStr("Events", items)
	}
	r.emit(op, impl)
	if !r.disc {
		return
	}
	wl, upToGap := []string{}, []string{}
	gap := false
	for t := start; t < start+count; t++ {
		if r.burned[t] {
			gap = true
		}
		if id, ok := r.o.topo[t]; ok {
			wl = append(wl, recStr(r.o.events[id], ":"))
			if !gap {
				upToGap = append(upToGap, recStr(r.o.events[id], ":"))
			}
		}
	}
	want := idsStr("Events", wl)
	dev := ""
	if gap && impl == idsStr("Events", upToGap) {
		dev = "W3"
	}
	r.compare(op, impl, want, dev, "topological-listing")
}

func (r *run) opReopen() {
	if err := r.store.Close(); err != nil {
		die("Close: %v", err)
	}
	r.open()
	for _, c := range r.o.parts {
		r.addPeer(c, true)
	}
	r.emit("Reopen", "Unit")
	r.reopened = true
	r.reopens++
	r.closeEpoch()
}

/* ---------------------------------------------------------------- generators */

func (r *run) smallKey() int {
	n := r.cs
	if n > 8 {
		n = 8
	}
	return r.rng.Intn(n + 4)
}

func (r *run) stepDisciplined() {
	g := r.rng
	if len(r.o.parts) == 0 {
		r.opAddP(g.Intn(3))
		return
	}
	k := g.Intn(1000)
	switch {
	case k < 25:
		r.opAddP(g.Intn(nCreators))
	case k < 330: // new event
		c := r.o.parts[g.Intn(len(r.o.parts))]
		m := r.newEvent(c, len(r.o.part[c]))
		topo := r.ntopo
		before := len(r.o.events)
		r.opSetEvent(m, topo, g.Intn(1000), true)
		if len(r.o.events) > before || r.burn {
			r.ntopo++
		}
	case k < 450: // update of a known event (old ones preferred every other time)
		if len(r.acked) == 0 {
			return
		}
		m := r.acked[g.Intn(len(r.acked))]
		if g.Intn(2) == 0 {
			m = r.acked[g.Intn(len(r.acked)/3+1)]
		}
		r.opSetEvent(m, r.o.events[m.id].topo, g.Intn(1000), false)
	case k < 550:
		if len(r.acked) == 0 || g.Intn(10) == 0 {
			r.opGetEvent(nil)
		} else {
			r.opGetEvent(r.acked[g.Intn(len(r.acked))])
		}
	case k < 620:
		c := g.Intn(nCreators)
		skip := g.Intn(len(r.o.part[c])+3) - 1
		if g.Intn(30) == 0 {
			skip = -2 - g.Intn(2) // W5 probe (outside wf_ops)
		}
		r.opPEvents(c, skip)
	case k < 690:
		c := g.Intn(nCreators)
		r.opPEvent(c, g.Intn(len(r.o.part[c])+3)-1)
	case k < 720:
		r.opLastFrom(g.Intn(nCreators))
	case k < 740:
		r.opKnown()
	case k < 790:
		r.opSetBlock(r.smallKey(), g.Intn(1000))
	case k < 830:
		r.opGetBlock(r.smallKey())
	case k < 840:
		r.opLastBlock()
	case k < 875:
		r.opSetRound(r.smallKey(), g.Intn(1000))
	case k < 895:
		r.opGetRound(r.smallKey())
	case k < 910:
		r.opDbRound(r.smallKey())
	case k < 935:
		r.opSetFrame(r.smallKey(), g.Intn(1000))
	case k < 950:
		r.opGetFrame(r.smallKey())
	case k < 962:
		r.opDbFrame(r.smallKey())
	case k < 988:
		r.opDbTopo(g.Intn(r.ntopo+2), g.Intn(r.ntopo+4)-1)
	default:
		r.opReopen()
	}
}

func (r *run) stepUndisciplined() {
	g := r.rng
	k := g.Intn(1000)
	switch {
	case k < 50:
		r.opAddP(g.Intn(3)) // creator 3 is never added
	case k < 400:
		if len(r.all) > 0 && g.Intn(100) < 30 {
			m := r.all[g.Intn(len(r.all))]
			topo := m.topo
			if g.Intn(5) == 0 {
				topo = g.Intn(r.ntopo + 3)
			}
			r.opSetEvent(m, topo, g.Intn(1000), false)
			return
		}
		c := g.Intn(3)
		if g.Intn(100) < 10 {
			c = 3
		}
		idx := len(r.o.part[c])
		if g.Intn(100) < 15 {
			idx = g.Intn(idx+4) - 1
		}
		topo := r.ntopo
		if g.Intn(100) < 10 {
			topo = g.Intn(r.ntopo+3) - 1
		} else {
			r.ntopo++
		}
		m := r.newEvent(c, idx)
		m.topo = topo
		r.opSetEvent(m, topo, g.Intn(1000), true)
	case k < 500:
		if len(r.all) == 0 || g.Intn(10) == 0 {
			r.opGetEvent(nil)
		} else {
			r.opGetEvent(r.all[g.Intn(len(r.all))])
		}
	case k < 580:
		c := g.Intn(nCreators)
		r.opPEvents(c, g.Intn(len(r.o.part[c])+5)-3)
	case k < 660:
		c := g.Intn(nCreators)
		r.opPEvent(c, g.Intn(len(r.o.part[c])+4)-2)
	case k < 700:
		r.opLastFrom(g.Intn(nCreators))
	case k < 730:
		r.opKnown()
	case k < 780:
		r.opSetBlock(r.smallKey(), g.Intn(1000))
	case k < 820:
		r.opGetBlock(r.smallKey())
	case k < 830:
		r.opLastBlock()
	case k < 860:
		r.opSetRound(r.smallKey(), g.Intn(1000))
	case k < 880:
		r.opGetRound(r.smallKey())
	case k < 900:
		r.opDbRound(r.smallKey())
	case k < 920:
		r.opSetFrame(r.smallKey(), g.Intn(1000))
	case k < 940:
		r.opGetFrame(r.smallKey())
	case k < 950:
		r.opDbFrame(r.smallKey())
	case k < 980:
		r.opDbTopo(g.Intn(r.ntopo+3)-1, g.Intn(r.ntopo+4)-1)
	default:
		r.opReopen()
	}
}

func statStr(m map[string]int) string {
	ks := []string{}
	for k := range m {
		ks = append(ks, k)
	}
	sort.Strings(ks)
	out := []string{}
	for _, k := range ks {
		out = append(out, fmt.Sprintf("%s:%d", k, m[k]))
	}
	if len(out) == 0 {
		return "-"
	}
	return strings.Join(out, ",")
}

func sequence(rng *rand.Rand, seq, cs, nops int, disc bool) {
	dir, err := os.MkdirTemp("", "verif-store-")
	if err != nil {
		die("tempdir: %v", err)
	}
	defer os.RemoveAll(dir)
	r := &run{rng: rng, seq: seq, cs: cs, disc: disc, dir: dir, byPub: map[string]int{},
		byHex: map[string]*evRec{}, burned: map[int]bool{}, o: newOracle(),
		kinds: map[string]int{}, errs: map[string]int{}, ws: map[string]int{}}
	for i := range r.epoch {
		r.epoch[i] = map[int]bool{}
	}
	for c := 0; c < nCreators; c++ {
		b := make([]byte, 33)
		b[0] = 0x04
		for i := 1; i < 33; i++ {
			b[i] = byte(17*c + i)
		}
		r.pub[c] = b
		r.pubHex[c] = cm.EncodeToString(b)
		r.byPub[r.pubHex[c]] = c
	}
	r.burn = disc && rng.Intn(3) == 0
	t := tag(disc)
	if r.burn {
		t = "D burn"
	}
	fmt.Fprintf(w, "S %d %d NEW %s\n", seq, cs, t)
	r.open()
	if disc || rng.Intn(4) > 0 {
		for _, c := range rng.Perm(3)[:2+rng.Intn(2)] {
			r.opAddP(c)
		}
	}
	for r.nops < nops {
		if disc {
			r.stepDisciplined()
		} else {
			r.stepUndisciplined()
		}
	}
	r.closeEpoch()
	if err := r.store.Close(); err != nil {
		die("Close: %v", err)
	}
	fmt.Fprintf(w, "Z %d %d %s ops=%d events=%d kinds=%s errs=%s reopen=%d evict>=%d dev=%s\n", seq, cs, tag(disc),
		r.nops, len(r.o.events), statStr(r.kinds), statStr(r.errs), r.reopens, r.evict, statStr(r.ws))
}

func main() {
	seed := flag.Int64("seed", 1, "seed")
	seqs := flag.Int("seqs", 200, "number of operation sequences")
	ops := flag.Int("ops", 150, "operations per sequence")
	thorough := flag.Bool("thorough", false, "more and longer sequences (unless -seqs / -ops are given)")
	flag.Parse()
	set := map[string]bool{}
	flag.Visit(func(f *flag.Flag) { set[f.Name] = true })
	if *thorough {
		if !set["seqs"] {
			*seqs = 1500
		}
		if !set["ops"] {
			*ops = 300
		}
	}
	lg := logrus.New()
	lg.Out = io.Discard
	lg.Level = logrus.PanicLevel
	quiet = logrus.NewEntry(lg)
	w = bufio.NewWriterSize(os.Stdout, 1<<20)
	defer w.Flush()
	rng := rand.New(rand.NewSource(*seed))
	sizes := []int{1, 2, 3, 4, 5, 8, 50, 10000}
	t0 := time.Now()
	for s := 0; s < *seqs; s++ {
		cs := sizes[rng.Intn(len(sizes))]
		disc := rng.Intn(4) != 0
		n := *ops
		if cs == 50 && *thorough {
			n = *ops * 3 // long enough for the windows of size 50 to roll
		}
		sequence(rng, s, cs, n, disc)
	}
	dt := time.Since(t0).Seconds()
	fmt.Fprintf(w, "# store: seed=%d seqs=%d ops=%d V=%d W=%d\n", *seed, *seqs, totOps, totV, totW)
	fmt.Fprintf(os.Stderr, "store harness: %d ops in %.1fs (%.0f ops/s), V=%d W=%d\n", totOps, dt, float64(totOps)/dt, totV, totW)
}
