package main

// Canonical texts of the values a node hands to its Store.  The text of a value is exactly the
// byte string the BadgerStore encodes for the DB (Event.MarshalDB, Block.Marshal, RoundInfo.Marshal,
// Frame.Marshal, PeerSet.Marshal, Root.Marshal): all of them are deterministic encoders (sorted map
// keys), so "decodes to the identical value" = "re-encodes to the identical text".  The memory-only
// event fields (round, lamportTimestamp, roundReceived) and RoundInfo.queued/decided are not part of
// these encodings, hence excluded from the comparison, as DESIGN.md (C16) says.

import (
	"encoding/json"
	"fmt"
	"sort"
	"strings"

	hg "github.com/mosaicnetworks/babble/src/hashgraph"
	"github.com/mosaicnetworks/babble/src/peers"
	"verifharness/hx"
)

func evText(e *hg.Event) string {
	b, err := e.MarshalDB()
	if err != nil {
		return "!marshal-error:" + err.Error()
	}
	return string(b)
}

func blockText(b *hg.Block) string {
	x, err := b.Marshal()
	if err != nil {
		return "!marshal-error:" + err.Error()
	}
	return string(x)
}

func roundText(r *hg.RoundInfo) string {
	x, err := r.Marshal()
	if err != nil {
		return "!marshal-error:" + err.Error()
	}
	return string(x)
}

func frameText(f *hg.Frame) string {
	x, err := f.Marshal()
	if err != nil {
		return "!marshal-error:" + err.Error()
	}
	return string(x)
}

func psText(ps *peers.PeerSet) string {
	x, err := ps.Marshal()
	if err != nil {
		return "!marshal-error:" + err.Error()
	}
	return string(x)
}

func rootText(r *hg.Root) string {
	x, err := r.Marshal()
	if err != nil {
		return "!marshal-error:" + err.Error()
	}
	return string(x)
}

// diffFields names the (top-level, for "Body" second-level) JSON fields in which two texts differ.
func diffFields(a, b string) string {
	var ma, mb map[string]json.RawMessage
	if json.Unmarshal([]byte(a), &ma) != nil || json.Unmarshal([]byte(b), &mb) != nil {
		return "raw"
	}
	keys := map[string]bool{}
	for k := range ma {
		keys[k] = true
	}
	for k := range mb {
		keys[k] = true
	}
	out := []string{}
	for k := range keys {
		if string(ma[k]) == string(mb[k]) {
			continue
		}
		if k == "Body" {
			sub := diffFields(string(ma[k]), string(mb[k]))
			for _, s := range strings.Split(sub, ",") {
				out = append(out, "Body."+s)
			}
			continue
		}
		out = append(out, k)
	}
	sort.Strings(out)
	if len(out) == 0 {
		return "raw"
	}
	return strings.Join(out, ",")
}

type evWrap struct {
	TopologicalIndex int
	LastAncestors    hg.CoordinatesMap
	FirstDescendants hg.CoordinatesMap
}

// evBrief: the mutable persisted part of an event text, readable (ordinals, not hashes).
func evBrief(w *hx.World, text string) string {
	var x evWrap
	if json.Unmarshal([]byte(text), &x) != nil {
		return "?"
	}
	return fmt.Sprintf("topo=%d_LA=[%s]_FD=[%s]", x.TopologicalIndex,
		strings.ReplaceAll(hx.CoordsStr(w, x.LastAncestors), " ", ","),
		strings.ReplaceAll(hx.CoordsStr(w, x.FirstDescendants), " ", ","))
}

// blockBrief: readable summary of a block text.
func blockBrief(w *hx.World, text string) string {
	var b hg.Block
	if json.Unmarshal([]byte(text), &b) != nil {
		return "?"
	}
	sigs := []string{}
	for v := range b.Signatures {
		sigs = append(sigs, fmt.Sprint(w.Ord(v)))
	}
	sort.Strings(sigs)
	return fmt.Sprintf("index=%d_rr=%d_statehash=%dB_txs=%d_receipts=%d_signers=[%s]", b.Index(), b.RoundReceived(),
		len(b.StateHash()), len(b.Transactions()), len(b.InternalTransactionReceipts()), strings.Join(sigs, ","))
}

func brief(w *hx.World, kind, text string) string {
	switch kind {
	case "event":
		return evBrief(w, text)
	case "block":
		return blockBrief(w, text)
	}
	if len(text) > 120 {
		return fmt.Sprintf("%dB:%s..", len(text), strings.ReplaceAll(text[:100], " ", "_"))
	}
	return strings.ReplaceAll(strings.TrimSpace(text), " ", "_")
}
