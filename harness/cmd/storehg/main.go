// Command storehg: the "real gossip history" half of C16 (store fidelity), and C02's stored-block oracle.
//
// A real node core (node 0) runs on a real BadgerStore wrapped in the recording decorator RecStore
// (recstore.go) and gossips with in-memory peers (real cores on InmemStores) under a seeded random
// schedule; an extra harness-driven validator X signs blocks LATE so that blocks that already left the
// block cache are re-saved.  The persistent node's cache is tiny in most histories (events, blocks,
// rounds and frames are evicted all the time) and default-size in some.
//
// Output:
//
//	H <hist> seed=.. n=.. cs=.. steps=.. lag=..          start of a history
//	S <hist> <cache> NEW D / S <hist> <cache> <op> => <res>   store traffic in cmd/store's grammar (replayed on Store.v)
//	W <W1..W5> hist=.. cs=.. step=.. op=.. impl=.. want=..     documented deviation of the store from a plain map
//	V C16 <class> hist=.. seed=.. n=.. cs=.. step=.. ...       ORACLE violation (plain map of last acknowledged writes)
//	V C02 stored-block-differs-from-delivered ...              what node 0 reports for block i is not delivered body + answer
//	Z <hist> key=value ...                                      statistics
//
// Oracle (independent of the Coq model): see RecStore, afterNode0, verifyAll.
package main

import (
	"bufio"
	"bytes"
	"flag"
	"fmt"
	"io"
	"math/rand"
	"os"
	"path/filepath"
	"sort"
	"strconv"
	"strings"
	"time"

	"github.com/mosaicnetworks/babble/src/crypto/keys"
	hg "github.com/mosaicnetworks/babble/src/hashgraph"
	"github.com/mosaicnetworks/babble/src/peers"
	"verifharness/hx"
)

type delivery struct {
	body  hg.BlockBody // as handed to the application (no state hash, no receipts)
	want  string       // BlockBody.Marshal of body + the application's state hash and receipts
	state []byte
}

type signer struct {
	ord    int
	head   string
	seq    int
	next   int // lowest block index not yet signed
	signed map[int]bool
	mode   int
	lag    int
}

type hist struct {
	w      *hx.World
	out    *bufio.Writer
	rng    *rand.Rand
	hid    int
	seed   int64
	n, cs  int
	steps  int
	slines bool
	ring   bool
	maxOps int
	regime string
	target int // window regime: go on until this many blocks were delivered
	nodes  []*hx.Node
	rec    *RecStore
	dir    string
	step   int
	x      *signer

	deliveries []delivery
	sigsSeen   map[int]map[string]string
	emptyRoot  string

	// statistics
	nStoreOps, nS                                   int
	opKinds                                         map[string]int
	nNewEvents, nEventUpdates, nInPlaceUpdates      int
	nEvictedEventUpdates                            int
	nBlockUpdates, nLateBlockWrites                 int
	nReadsHit, nReadsMiss                           [2]int
	nReadsUnknown                                   int
	nBlockReadsHit, nBlockReadsMiss                 [2]int
	nListings, nDbChecks, nReopenChecks, nC02Checks int
	w4                                              [2]int
	ws                                              map[string]int
	nV                                              int
	vSeen                                           map[string]int
	actions                                         map[string]int
	errs                                            map[string]int
	snapshots                                       int
	node0Actions, consecErr                         int
	wedged                                          bool
}

var totV, totW int

func (h *hist) violation(prop, class, detail string) {
	h.nV++
	totV++
	f := strings.SplitN(detail, " ", 3)
	k := prop + " " + class + " " + f[0]
	if len(f) > 1 && strings.HasPrefix(f[1], "where=") {
		k += " " + f[1]
	}
	h.vSeen[k]++
	if h.vSeen[k] > 3 {
		return
	}
	fmt.Fprintf(h.out, "V %s %s hist=%d seed=%d n=%d cs=%d step=%d %s\n", prop, class, h.hid, h.seed, h.n, h.cs, h.step, detail)
}

func (h *hist) differs(kind, where, by, key, want, got string) {
	field := diffFields(want, got)
	h.violation("C16", "read-differs-from-last-write", fmt.Sprintf("kind=%s where=%s by=%s key=%s field=%s written=%s read=%s",
		kind, where, by, key, field, brief(h.w, kind, want), brief(h.w, kind, got)))
	if kind == "block" {
		h.violation("C02", "stored-block-differs-from-delivered", fmt.Sprintf("kind=last-write where=%s by=%s key=%s field=%s written=%s read=%s",
			where, by, key, field, brief(h.w, kind, want), brief(h.w, kind, got)))
	}
}

func (h *hist) wline(class, op, impl, want string) {
	h.ws[class]++
	totW++
	if h.ws[class] > 3 {
		return
	}
	fmt.Fprintf(h.out, "W %s hist=%d cs=%d step=%d op=%s impl=%s want=%s\n", class, h.hid, h.cs, h.step,
		strings.ReplaceAll(op, " ", "_"), strings.ReplaceAll(impl, " ", "_"), strings.ReplaceAll(want, " ", "_"))
}

func die(format string, a ...interface{}) {
	fmt.Fprintf(os.Stderr, "storehg harness: "+format+"\n", a...)
	os.Exit(2)
}

func errClass(err error) string {
	s := err.Error()
	for _, k := range []string{"TooLate", "SkippedIndex", "UnknownParticipant", "PassedIndex", "KeyAlreadyExists"} {
		if strings.Contains(s, k) {
			return k
		}
	}
	switch {
	case strings.Contains(s, "Not Found") || strings.Contains(s, "not found") || strings.Contains(s, "KeyNotFound"):
		return "not-found"
	case hg.IsNormalSelfParentError(err):
		return "normal-self-parent"
	}
	f := strings.Fields(s)
	if len(f) > 4 {
		f = f[:4]
	}
	return strings.Join(f, "-")
}

/* ------------------------------------------------------------------ gossip */

func (h *hist) pull(a, b *hx.Node, limit int, lose bool) {
	known := a.Core.KnownEvents()
	diff, err := b.Core.EventDiff(known)
	if err != nil {
		h.actions["diff-error"]++
		if b.ID == 0 {
			h.node0Err("diff", err)
			h.afterNode0()
		}
		return
	}
	if limit >= 0 && limit < len(diff) {
		diff = diff[:limit]
		h.actions["truncated"]++
	}
	wire, werr := b.Core.ToWire(diff)
	if werr != nil && b.ID == 0 {
		h.node0Err("towire", werr)
	}
	if b.ID == 0 {
		h.afterNode0x(true) // node 0 served a diff: reads of old events through its store
	}
	if lose {
		h.actions["lost"]++
		return
	}
	err = a.Core.Sync(b.Core.ValidatorID(), wire)
	if err != nil {
		h.actions["sync-error"]++
		if a.ID == 0 {
			h.node0Err("sync", err)
		}
	} else if a.ID == 0 {
		h.consecErr = 0
	}
	if err == nil || hg.IsNormalSelfParentError(err) {
		if perr := a.Core.ProcessSigPool(); perr != nil {
			h.actions["sigpool-error"]++
			if a.ID == 0 {
				h.node0Err("sigpool", perr)
			}
		}
	}
	if a.ID == 0 {
		h.afterNode0()
	}
}

func (h *hist) node0Err(what string, err error) {
	c := what + ":" + errClass(err)
	h.errs[c]++
	if h.errs[c] == 1 {
		fmt.Fprintf(h.out, "# hist=%d cs=%d step=%d node 0 %s error: %.200s\n", h.hid, h.cs, h.step, what, strings.ReplaceAll(err.Error(), "\n", " "))
	}
	if !hg.IsNormalSelfParentError(err) {
		h.consecErr++
		if h.consecErr >= 12 {
			h.wedged = true
		}
	}
}

func (h *hist) submit(a *hx.Node) {
	k := 1 + h.rng.Intn(3)
	txs := [][]byte{}
	for i := 0; i < k; i++ {
		txs = append(txs, h.w.NewTx(h.rng.Intn(4)))
	}
	a.Core.AddTransactions(txs)
	h.actions["submit"]++
}

/* ------------------------------------------------------------------ the late signer X */

func (h *hist) xPub() []byte { return keys.FromPublicKey(&h.w.Privs[h.x.ord].PublicKey) }

func (h *hist) lagOf(i int) int {
	x := h.x
	switch x.mode {
	case 0:
		return 0
	case 1:
		return x.lag
	case 2:
		if i%3 == 0 {
			return x.lag
		}
		return 0
	default:
		if i%4 == 0 {
			return 2*x.lag + 1
		}
		return 1
	}
}

// xPayload: X's (valid) signatures of blocks that are old enough by X's schedule; flush = sign everything left
func (h *hist) xPayload(flush bool) []hg.BlockSignature {
	x := h.x
	var ref *hx.Node
	for _, nd := range h.nodes[1:] {
		if ref == nil || nd.Store.LastBlockIndex() > ref.Store.LastBlockIndex() {
			ref = nd
		}
	}
	last := ref.Store.LastBlockIndex()
	sigs := []hg.BlockSignature{}
	for i := x.next; i <= last && len(sigs) < 3; i++ {
		if x.signed[i] {
			continue
		}
		if !flush && i > last-h.lagOf(i) {
			continue
		}
		blk, err := ref.Store.GetBlock(i)
		if err != nil || len(blk.StateHash()) == 0 {
			continue
		}
		sig, err := blk.Sign(h.w.Privs[x.ord])
		if err != nil {
			continue
		}
		x.signed[i] = true
		sigs = append(sigs, sig)
		if last-i >= h.cs {
			h.actions["x-sig-older-than-cache"]++
		}
		h.actions["x-sigs"]++
	}
	for x.signed[x.next] {
		x.next++
	}
	return sigs
}

func (h *hist) xStep(flush bool) {
	x, w := h.x, h.w
	// home: an in-memory node that has X's head
	homes := []*hx.Node{}
	for _, nd := range h.nodes[1:] {
		if x.head != "" {
			if _, err := nd.Store.GetEvent(x.head); err != nil {
				continue
			}
		}
		homes = append(homes, nd)
	}
	if len(homes) == 0 {
		h.actions["x-no-home"]++
		return
	}
	b := homes[h.rng.Intn(len(homes))]
	op := b.Core.Head()
	var opCreator uint32
	opIndex := -1
	if op != "" {
		oe, err := b.Store.GetEvent(op)
		if err != nil {
			return
		}
		opCreator, opIndex = w.Peers[w.Ord(oe.Creator())].ID(), oe.Index()
	} else if x.head == "" && h.rng.Intn(2) == 0 {
		// fine: X's first event without other-parent
	}
	sigs := h.xPayload(flush)
	ev := hg.NewEvent(nil, nil, sigs, []string{x.head, op}, h.xPub(), x.seq+1)
	ev.Sign(w.Privs[x.ord])
	ev.SetWireInfo(x.seq, opCreator, opIndex, w.Peers[x.ord].ID())
	wev := ev.ToWire()
	from := w.Peers[x.ord].ID()
	deliver := func(a *hx.Node) bool {
		err := a.Core.Sync(from, []hg.WireEvent{wev})
		if err == nil || hg.IsNormalSelfParentError(err) {
			if perr := a.Core.ProcessSigPool(); perr != nil && a.ID == 0 {
				h.node0Err("sigpool", perr)
			}
		}
		_, gerr := a.Store.GetEvent(ev.Hex())
		if a.ID == 0 {
			h.afterNode0()
		}
		return err == nil && gerr == nil
	}
	if !deliver(b) {
		h.actions["x-home-rejected"]++
		for _, s := range sigs {
			delete(x.signed, s.Index)
			if s.Index < x.next {
				x.next = s.Index
			}
		}
		return
	}
	x.head, x.seq = ev.Hex(), x.seq+1
	h.actions["x-events"]++
	for _, nd := range h.nodes {
		if nd != b && h.rng.Intn(3) > 0 {
			if deliver(nd) && nd.ID == 0 {
				h.actions["x-direct-to-node0"]++
			}
		}
	}
}

/* ------------------------------------------------------------------ oracle after every action of node 0 */

func (h *hist) pubOf(c int) string { return h.w.Peers[c].PubKeyString() }

func (h *hist) afterNode0() { h.afterNode0x(false) }

// light: the action only read from node 0's store (it served a diff)
func (h *hist) afterNode0x(light bool) {
	r := h.rec
	h.node0Actions++
	r.harness = true
	defer func() { r.harness = false }()
	if light {
		for _, k := range sample(h.rng, len(r.evOrder), 1, 1, 2) {
			r.GetEvent(r.evOrder[k])
		}
		return
	}
	// (1) every key written during this action: the DB copy is the last acknowledged write
	h.dbCheckDirty()
	// (2) reads through the same store, sample incl. the oldest keys
	h.sampleReads()
	// (3) C02: delivered blocks as reported now
	h.c02Check("")
	// (4) now and then: the whole topological listing, and a snapshot of the DB opened as a fresh store
	if h.node0Actions%(16+len(r.evOrder)/4) == 0 {
		h.topoCheck(r.B, "live")
	}
	if h.snapshots < 3 && h.rng.Intn(150) == 0 && len(r.evOrder) > 5 {
		h.snapshotCheck()
	}
}

func (h *hist) dbCheckDirty() {
	r := h.rec
	hexes := []string{}
	for x := range r.dirtyEv {
		hexes = append(hexes, x)
	}
	sort.Strings(hexes)
	for _, x := range hexes {
		rec := r.ev[x]
		e, err := r.B.VerifDBGetEvent(x)
		h.nDbChecks++
		if err != nil {
			h.violation("C16", "acknowledged-write-unreadable", fmt.Sprintf("kind=event where=db-after-write key=e%d(c%d#%d)", rec.id, rec.c, rec.idx))
		} else if t := evText(e); t != rec.text {
			h.differs("event", "db-after-write", "harness", fmt.Sprintf("e%d(c%d#%d)", rec.id, rec.c, rec.idx), rec.text, t)
		}
	}
	r.dirtyEv = map[string]bool{}
	for _, i := range sortedKeys(r.dirtyBlk) {
		b, err := r.B.VerifDBGetBlock(i)
		h.nDbChecks++
		if err != nil {
			h.violation("C16", "acknowledged-write-unreadable", fmt.Sprintf("kind=block where=db-after-write key=b%d", i))
		} else if t := blockText(b); t != r.blk[i].text {
			h.differs("block", "db-after-write", "harness", fmt.Sprintf("b%d", i), r.blk[i].text, t)
		}
	}
	r.dirtyBlk = map[int]bool{}
	for _, i := range sortedKeys(r.dirtyRnd) {
		h.dbRound(i, "db-after-write")
	}
	r.dirtyRnd = map[int]bool{}
	for _, i := range sortedKeys(r.dirtyFrm) {
		h.dbFrame(i, "db-after-write")
	}
	r.dirtyFrm = map[int]bool{}
	for _, i := range sortedKeys(r.dirtyPs) {
		h.dbPeerSet(r.B, i, "db-after-write")
	}
	r.dirtyPs = map[int]bool{}
}

func sortedKeys(m map[int]bool) []int {
	l := []int{}
	for k := range m {
		l = append(l, k)
	}
	sort.Ints(l)
	return l
}

func (h *hist) dbRound(i int, where string) {
	r := h.rec
	ri, err := r.B.VerifDBGetRound(i)
	h.nDbChecks++
	op := fmt.Sprintf("DbRound %d", i)
	if err != nil {
		r.emit(op, "Err KeyNotFound")
		h.violation("C16", "acknowledged-write-unreadable", fmt.Sprintf("kind=round where=%s key=r%d", where, i))
		return
	}
	t := roundText(ri)
	r.emit(op, "Z "+strconv.Itoa(r.ordOf("R", t)))
	if t != r.rnd[i].text {
		h.differs("round", where, "harness", fmt.Sprintf("r%d", i), r.rnd[i].text, t)
	}
}

func (h *hist) dbFrame(i int, where string) {
	r := h.rec
	f, err := r.B.VerifDBGetFrame(i)
	h.nDbChecks++
	op := fmt.Sprintf("DbFrame %d", i)
	if err != nil {
		r.emit(op, "Err KeyNotFound")
		h.violation("C16", "acknowledged-write-unreadable", fmt.Sprintf("kind=frame where=%s key=f%d", where, i))
		return
	}
	t := frameText(f)
	r.emit(op, "Z "+strconv.Itoa(r.ordOf("F", t)))
	if t != r.frm[i].text {
		h.differs("frame", where, "harness", fmt.Sprintf("f%d", i), r.frm[i].text, t)
	}
}

func (h *hist) dbPeerSet(b *hg.BadgerStore, i int, where string) {
	r := h.rec
	x, err := b.VerifDBGetPeerSet(i)
	h.nDbChecks++
	ps, ok := x.(*peers.PeerSet)
	if err != nil || !ok || ps == nil {
		h.violation("C16", "acknowledged-write-unreadable", fmt.Sprintf("kind=peerset where=%s key=ps%d", where, i))
		return
	}
	if t := psText(ps); t != r.ps[i].text {
		h.differs("peerset", where, "harness", fmt.Sprintf("ps%d", i), r.ps[i].text, t)
	}
}

func sample(rng *rand.Rand, n, head, tail, random int) []int {
	seen := map[int]bool{}
	out := []int{}
	add := func(i int) {
		if i >= 0 && i < n && !seen[i] {
			seen[i] = true
			out = append(out, i)
		}
	}
	for i := 0; i < head; i++ {
		add(i)
	}
	for i := 0; i < tail; i++ {
		add(n - 1 - i)
	}
	for i := 0; i < random && n > 0; i++ {
		add(rng.Intn(n))
	}
	return out
}

func (h *hist) sampleReads() {
	r, g := h.rec, h.rng
	for _, k := range sample(g, len(r.evOrder), 2, 2, 4) {
		r.GetEvent(r.evOrder[k])
	}
	rk := sortedKeysV(r.rnd)
	for _, k := range sample(g, len(rk), 1, 1, 1) {
		r.GetRound(rk[k])
	}
	fk := sortedKeysV(r.frm)
	for _, k := range sample(g, len(fk), 1, 1, 1) {
		r.GetFrame(fk[k])
	}
	for k := range r.ps {
		r.GetPeerSet(k)
	}
	full := h.node0Actions%(4+len(r.evOrder)/32) == 0
	for _, c := range r.parts {
		pub := h.pubOf(c)
		n := len(r.part[c])
		if full {
			r.ParticipantEvents(pub, -1)
		}
		r.ParticipantEvents(pub, g.Intn(n+2)-1)
		r.ParticipantEvent(pub, 0)
		r.ParticipantEvent(pub, g.Intn(n+2)-1)
		r.LastEventFrom(pub)
		// roots: never written again without a Reset: the in-memory root and the DB root are the initial one
		if !r.wasReset && full {
			root, err := r.B.GetRoot(pub)
			droot, derr := r.B.VerifDBGetRoot(pub)
			if err != nil || derr != nil {
				h.violation("C16", "acknowledged-write-unreadable", fmt.Sprintf("kind=root creator=%d", c))
			} else if rootText(root) != h.emptyRoot || rootText(droot) != h.emptyRoot {
				h.violation("C16", "read-differs-from-last-write", fmt.Sprintf("kind=root where=live creator=%d", c))
			}
		}
	}
	r.KnownEvents()
	r.LastBlockIndex()
	r.LastRound()
}

func sortedKeysV(m map[int]*valRec) []int {
	l := []int{}
	for k := range m {
		l = append(l, k)
	}
	sort.Ints(l)
	return l
}

// c02Check: what node 0 reports for delivered block i = delivered body + state hash + receipts; signatures only grow
func (h *hist) c02Check(where string) {
	r := h.rec
	n := len(h.deliveries)
	idx := sample(h.rng, n, 2, 2, 3)
	if where != "" {
		idx = sample(h.rng, n, n, 0, 0)
	}
	for _, i := range idx {
		d := h.deliveries[i]
		b, err := r.GetBlock(d.body.Index)
		h.nC02Checks++
		wh := where
		if wh == "" {
			wh = r.whereOf(r.lastMiss)
		}
		if err != nil {
			h.violation("C02", "stored-block-differs-from-delivered", fmt.Sprintf("kind=unreadable where=%s key=b%d", wh, d.body.Index))
			continue
		}
		got, _ := b.Body.Marshal()
		if string(got) != d.want {
			h.violation("C02", "stored-block-differs-from-delivered", fmt.Sprintf("kind=body where=%s key=b%d field=%s reported=%s deliveries=%d",
				wh, d.body.Index, prefixFields("Body.", diffFields(d.want, string(got))), blockBrief(h.w, blockText(b)), n))
		}
		seen := h.sigsSeen[d.body.Index]
		if seen == nil {
			seen = map[string]string{}
			h.sigsSeen[d.body.Index] = seen
		}
		lost := 0
		for v, s := range seen {
			if b.Signatures[v] != s {
				lost++
			}
		}
		if lost > 0 {
			h.violation("C02", "stored-block-differs-from-delivered", fmt.Sprintf("kind=signature-removed where=%s key=b%d had=%d has=%d", wh, d.body.Index, len(seen), len(b.Signatures)))
		}
		for v, s := range b.Signatures {
			seen[v] = s
		}
	}
}

func prefixFields(p, s string) string {
	l := strings.Split(s, ",")
	for i := range l {
		l[i] = p + l[i]
	}
	return strings.Join(l, ",")
}

// topoCheck: the DB-level topological listing enumerates every stored event exactly once, in order, no gaps
func (h *hist) topoCheck(b *hg.BadgerStore, where string) {
	r := h.rec
	if r.wasReset {
		return
	}
	count := r.maxTopo + 4
	l, err := b.VerifDBTopologicalEvents(0, count)
	op := fmt.Sprintf("DbTopo 0 %d", count)
	if err != nil {
		r.emit(op, "Err KeyNotFound")
		h.violation("C16", "topological-listing", fmt.Sprintf("where=%s error=%v", where, err))
		return
	}
	items, got := []string{}, []string{}
	texts := map[string]string{}
	for _, e := range l {
		t := evText(e)
		items = append(items, fmt.Sprintf("%d:%d:%d:%d:%d", r.id(e.Hex()), h.w.Ord(e.Creator()), e.Index(), e.VerifTopologicalIndex(), r.ordOf("E", t)))
		got = append(got, e.Hex())
		texts[e.Hex()] = t
	}
	r.emit(op, idsStr("Events", items))
	want, upToGap := []string{}, []string{}
	gap := false
	for t := 0; t <= r.maxTopo; t++ {
		x, ok := r.topo[t]
		if !ok {
			gap = true
			continue
		}
		want = append(want, x)
		if !gap {
			upToGap = append(upToGap, x)
		}
	}
	h.nListings++
	// the values listed are the last acknowledged writes
	for _, x := range got {
		if rec := r.ev[x]; rec != nil && texts[x] != rec.text {
			h.differs("event", where+"-topological-listing", "harness", fmt.Sprintf("e%d(c%d#%d)", rec.id, rec.c, rec.idx), rec.text, texts[x])
		}
	}
	// every stored event exactly once, in order, no gaps
	if strings.Join(got, ",") == strings.Join(want, ",") {
		return
	}
	if gap && strings.Join(got, ",") == strings.Join(upToGap, ",") {
		h.wline("W3", op, fmt.Sprintf("%d events", len(got)), fmt.Sprintf("%d events", len(want)))
		return
	}
	k := 0
	for k < len(got) && k < len(want) && got[k] == want[k] {
		k++
	}
	h.violation("C16", "topological-listing", fmt.Sprintf("where=%s listed=%d stored=%d first-difference-at=%d gaps=%v", where, len(got), len(want), k, gap))
}

// verifyAll: every key re-read from a freshly opened store (no cache) equals the last acknowledged write
func (h *hist) verifyAll(b *hg.BadgerStore, where string) {
	r := h.rec
	saveB, saveS, saveW, saveH := r.B, r.Store, r.where, r.harness
	r.B, r.Store, r.where, r.harness = b, b, where, true
	defer func() { r.B, r.Store, r.where, r.harness = saveB, saveS, saveW, saveH }()
	for _, x := range r.evOrder {
		r.GetEvent(x)
		h.nReopenChecks++
	}
	for _, i := range sortedKeysV(r.blk) {
		r.GetBlock(i)
		h.nReopenChecks++
	}
	for _, i := range sortedKeysV(r.rnd) {
		h.dbRound(i, where)
		h.nReopenChecks++
	}
	for _, i := range sortedKeysV(r.frm) {
		h.dbFrame(i, where)
		h.nReopenChecks++
	}
	for _, i := range sortedKeysV(r.ps) {
		h.dbPeerSet(b, i, where)
		h.nReopenChecks++
	}
	h.c02Check(where)
	if r.wasReset {
		return
	}
	// listings: a fresh store has no participant cache, ParticipantEvents falls back to the DB scan
	for _, c := range r.parts {
		pub := h.pubOf(c)
		for _, skip := range []int{-1, len(r.part[c]) / 2, len(r.part[c]) - 1} {
			l, err := b.ParticipantEvents(pub, skip)
			want := []string{}
			if skip+1 < len(r.part[c]) {
				want = r.part[c][skip+1:]
			}
			h.nListings++
			if err != nil || strings.Join(l, ",") != strings.Join(want, ",") {
				h.violation("C16", "participant-listing", fmt.Sprintf("where=%s creator=%d skip=%d listed=%d stored=%d err=%v", where, c, skip, len(l), len(want), err))
			}
		}
		for _, i := range sample(h.rng, len(r.part[c]), 1, 1, 2) {
			x, err := b.ParticipantEvent(pub, i)
			if err != nil || x != r.part[c][i] {
				h.violation("C16", "participant-event", fmt.Sprintf("where=%s creator=%d index=%d err=%v", where, c, i, err))
			}
		}
		droot, derr := b.VerifDBGetRoot(pub)
		if derr != nil || rootText(droot) != h.emptyRoot {
			h.violation("C16", "read-differs-from-last-write", fmt.Sprintf("kind=root where=%s creator=%d", where, c))
		}
	}
	h.topoCheck(b, where)
	h.topoPagesCheck(b, where, []int{100, 1 + h.rng.Intn(9)}[h.rng.Intn(2)])
}

// topoPagesCheck: the topological listing read page by page, the way Bootstrap reads it (pages of 100):
// the concatenation of the pages enumerates every stored event exactly once, in order
func (h *hist) topoPagesCheck(b *hg.BadgerStore, where string, page int) {
	r := h.rec
	if r.wasReset || len(r.burned) > 0 {
		return
	}
	got := []string{}
	for k := 0; ; k++ {
		l, err := b.VerifDBTopologicalEvents(k*page, page)
		op := fmt.Sprintf("DbTopo %d %d", k*page, page)
		if err != nil {
			r.emit(op, "Err KeyNotFound")
			h.violation("C16", "topological-listing", fmt.Sprintf("where=%s-paged page=%d error=%v", where, page, err))
			return
		}
		items := []string{}
		for _, e := range l {
			items = append(items, fmt.Sprintf("%d:%d:%d:%d:%d", r.id(e.Hex()), h.w.Ord(e.Creator()), e.Index(), e.VerifTopologicalIndex(), r.ordOf("E", evText(e))))
			got = append(got, e.Hex())
		}
		r.emit(op, idsStr("Events", items))
		if len(l) < page || k > len(r.evOrder) {
			break
		}
	}
	want := []string{}
	for t := 0; t <= r.maxTopo; t++ {
		if x, ok := r.topo[t]; ok {
			want = append(want, x)
		}
	}
	h.nListings++
	if strings.Join(got, ",") != strings.Join(want, ",") {
		k := 0
		for k < len(got) && k < len(want) && got[k] == want[k] {
			k++
		}
		h.violation("C16", "topological-listing", fmt.Sprintf("where=%s-paged page=%d listed=%d stored=%d first-difference-at=%d", where, page, len(got), len(want), k))
	}
}

func copyDir(src, dst string) error {
	if err := os.MkdirAll(dst, 0o755); err != nil {
		return err
	}
	ents, err := os.ReadDir(src)
	if err != nil {
		return err
	}
	for _, e := range ents {
		if e.IsDir() || e.Name() == "LOCK" {
			continue
		}
		in, err := os.Open(filepath.Join(src, e.Name()))
		if err != nil {
			return err
		}
		out, err := os.Create(filepath.Join(dst, e.Name()))
		if err != nil {
			in.Close()
			return err
		}
		_, err = io.Copy(out, in)
		in.Close()
		if cerr := out.Close(); err == nil {
			err = cerr
		}
		if err != nil {
			return err
		}
	}
	return nil
}

// snapshotCheck: copy the DB directory between two store calls (cf. cmd/crash copyDir: every acknowledged
// write has reached the value log), open the copy as a fresh store and re-read everything.  The running
// node is not disturbed.
func (h *hist) snapshotCheck() {
	dst, err := os.MkdirTemp("", "verif-storehg-snap")
	if err != nil {
		return
	}
	defer os.RemoveAll(dst)
	if err := copyDir(h.dir, dst); err != nil {
		fmt.Fprintf(h.out, "# snapshot copy failed: %v\n", err)
		return
	}
	b, err := hg.NewBadgerStore(h.cs, dst, false, hx.QuietLogger())
	if err != nil {
		h.violation("C16", "snapshot-does-not-open", fmt.Sprintf("err=%v", err))
		return
	}
	h.snapshots++
	h.rec.quietS = true
	h.verifyAll(b, "reopen-snapshot")
	h.rec.quietS = false
	b.Close()
}

// finalReopen: Close, NewBadgerStore on the same directory, re-read everything (also as S lines after `Reopen`)
func (h *hist) finalReopen() {
	r := h.rec
	if err := r.B.Close(); err != nil {
		h.violation("C16", "close-failed", fmt.Sprintf("err=%v", err))
		return
	}
	b, err := hg.NewBadgerStore(h.cs, h.dir, false, hx.QuietLogger())
	if err != nil {
		h.violation("C16", "reopen-failed", fmt.Sprintf("err=%v", err))
		return
	}
	r.B, r.Store = b, b
	r.emit("Reopen", "Unit")
	h.step = -1 // after the last step
	h.verifyAll(b, "reopen")
	b.Close()
}

/* ------------------------------------------------------------------ one history */

func runHistory(out *bufio.Writer, seed int64, hid int, regime string, n, cs, steps int, slines, ring bool, maxOps, target int) {
	rng := rand.New(rand.NewSource(seed))
	w := hx.NewWorld(bufio.NewWriter(io.Discard))
	h := &hist{w: w, out: out, rng: rng, hid: hid, seed: seed, n: n, cs: cs, steps: steps, slines: slines, ring: ring, maxOps: maxOps, regime: regime, target: target,
		sigsSeen: map[int]map[string]string{}, opKinds: map[string]int{}, ws: map[string]int{}, vSeen: map[string]int{},
		actions: map[string]int{}, errs: map[string]int{}}
	h.emptyRoot = rootText(hg.NewRoot())
	genesis := []int{}
	for i := 0; i < n; i++ {
		genesis = append(genesis, w.AddKey())
	}
	lag := cs // later than the block cache holds a block
	if lag > 128 {
		lag = 12
	}
	h.x = &signer{ord: w.AddKey(), seq: -1, signed: map[int]bool{}, mode: rng.Intn(4), lag: lag + 2}
	genesis = append(genesis, h.x.ord)
	if regime == "window" {
		h.x.mode = 1 + rng.Intn(2)
	}
	fmt.Fprintf(out, "H %d seed=%d regime=%s n=%d cs=%d steps=%d sigmode=%d ring=%d target=%d\n", hid, seed, regime, n, cs, steps, h.x.mode, b2i(ring), target)
	dir, err := os.MkdirTemp("", "verif-storehg-")
	if err != nil {
		die("tempdir: %v", err)
	}
	h.dir = dir
	defer os.RemoveAll(dir)
	bs, err := hg.NewBadgerStore(cs, dir, false, hx.QuietLogger())
	if err != nil {
		die("open: %v", err)
	}
	h.rec = newRecStore(h, bs)
	if slines {
		fmt.Fprintf(out, "S %d %d NEW D\n", hid, cs)
	}
	for i := 0; i < n; i++ {
		var store hg.Store = hg.NewInmemStore(100000)
		if i == 0 {
			store = h.rec
		}
		nd := w.NewNode(i, i, genesis, genesis, store)
		h.nodes = append(h.nodes, nd)
	}
	app0 := h.nodes[0].App
	app0.OnCommit = func(block hg.Block, state []byte) {
		receipts := []hg.InternalTransactionReceipt{}
		for _, itx := range block.InternalTransactions() {
			it := itx
			if w.Refused[w.ItxID(&it)] {
				receipts = append(receipts, it.AsRefused())
			} else {
				receipts = append(receipts, it.AsAccepted())
			}
		}
		exp := block.Body
		exp.StateHash = append([]byte{}, state...)
		exp.InternalTransactionReceipts = receipts
		want, _ := exp.Marshal()
		if block.Index() != len(h.deliveries) {
			h.violation("C02", "non-consecutive-index", fmt.Sprintf("delivery=%d index=%d", len(h.deliveries), block.Index()))
		}
		h.deliveries = append(h.deliveries, delivery{body: block.Body, want: string(want), state: exp.StateHash})
	}
	for _, nd := range h.nodes {
		if rng.Intn(2) == 0 {
			nd.Core.AddSelfEvent("")
			if nd.ID == 0 {
				h.afterNode0()
			}
		}
	}
	weights := make([]float64, n)
	for i := range weights {
		weights[i] = []float64{1, 1, 0.5, 0.2}[rng.Intn(4)]
	}
	weights[0] = 1
	pick := func() int {
		tot := 0.0
		for _, x := range weights {
			tot += x
		}
		r := rng.Float64() * tot
		for i, x := range weights {
			if r < x {
				return i
			}
			r -= x
		}
		return 0
	}
	truncRate := []float64{0, 0.1, 0.4}[rng.Intn(3)]
	loseRate := []float64{0, 0.05, 0.15}[rng.Intn(3)]
	submitRate := []float64{0.1, 0.25, 0.5}[rng.Intn(3)]
	for h.step = 0; (h.step < steps || (target > 0 && len(h.deliveries) < target && h.step < 60*target)) && !h.wedged; h.step++ {
		if h.nStoreOps > h.maxOps {
			h.wedged = true
			h.actions["op-budget-exhausted"]++
			break
		}
		if ring {
			// round-robin: node (k+1)%n pulls from node k%n, one transaction per sync; X adds an event once per cycle
			from, to := h.nodes[h.step%n], h.nodes[(h.step+1)%n]
			if h.step%n == 0 {
				h.xStep(false)
			}
			if rng.Intn(4) > 0 {
				h.submit(to)
			}
			h.pull(to, from, -1, false)
			h.actions["pull"]++
			continue
		}
		if rng.Intn(3) == 0 {
			h.xStep(false)
		}
		a := h.nodes[pick()]
		if rng.Float64() < submitRate {
			h.submit(a)
			continue
		}
		bi := pick()
		for tries := 0; h.nodes[bi] == a && tries < 50; tries++ {
			bi = pick()
		}
		if h.nodes[bi] == a {
			continue
		}
		b := h.nodes[bi]
		limit := -1
		if rng.Float64() < truncRate {
			limit = rng.Intn(6)
		}
		h.pull(a, b, limit, rng.Float64() < loseRate)
		h.actions["pull"]++
		if rng.Intn(3) == 0 {
			h.pull(b, a, -1, false)
			h.actions["push"]++
		}
	}
	// tail: X signs everything that is left (late signatures of old blocks), fair all-pairs cycles
	for c := 0; c < 3 && !h.wedged; c++ {
		for k := 0; k < 6; k++ {
			h.xStep(true)
		}
		for _, a := range h.nodes {
			for _, b := range h.nodes {
				if a != b {
					h.pull(a, b, -1, false)
				}
			}
		}
		h.step++
	}
	// final checks on the live store, then close / reopen
	h.rec.harness = true
	h.topoCheck(h.rec.B, "live")
	h.c02Check("live-end")
	h.rec.harness = false
	h.finalReopen()

	r := h.rec
	evictedEv := len(r.evOrder) - cs
	if evictedEv < 0 {
		evictedEv = 0
	}
	evictedBlk := len(r.blk) - cs
	if evictedBlk < 0 {
		evictedBlk = 0
	}
	st := map[string]int{"n": n, "cs": cs, "steps": h.step, "ring": b2i(ring), "regime_" + regime: 1, "events": len(r.evOrder), "blocks": len(r.blk), "rounds": len(r.rnd), "frames": len(r.frm),
		"peersets": len(r.ps), "deliveries": len(h.deliveries), "storeops": h.nStoreOps, "slines": h.nS,
		"ev_new": h.nNewEvents, "ev_updates": h.nEventUpdates, "ev_updates_inplace": h.nInPlaceUpdates, "ev_updates_after_eviction": h.nEvictedEventUpdates,
		"blk_updates": h.nBlockUpdates, "blk_updates_after_eviction": h.nLateBlockWrites,
		"node_ev_reads_hit": h.nReadsHit[0], "node_ev_reads_db": h.nReadsMiss[0], "harness_ev_reads_hit": h.nReadsHit[1], "harness_ev_reads_db": h.nReadsMiss[1],
		"node_blk_reads_hit": h.nBlockReadsHit[0], "node_blk_reads_db": h.nBlockReadsMiss[0], "harness_blk_reads_hit": h.nBlockReadsHit[1], "harness_blk_reads_db": h.nBlockReadsMiss[1],
		"reads_unknown": h.nReadsUnknown, "listings": h.nListings, "db_checks": h.nDbChecks, "reopen_checks": h.nReopenChecks, "c02_checks": h.nC02Checks,
		"w4_node": h.w4[0], "w4_harness": h.w4[1], "snapshots": h.snapshots, "node0_actions": h.node0Actions, "evicted_events": evictedEv, "evicted_blocks": evictedBlk,
		"rejected_new": r.rejectedNew, "wedged": b2i(h.wedged), "V": h.nV}
	for k, v := range h.actions {
		st["a:"+k] = v
	}
	for k, v := range h.errs {
		st["err:"+k] = v
	}
	for k, v := range h.ws {
		st["dev:"+k] = v
	}
	ks := []string{}
	for k := range st {
		ks = append(ks, k)
	}
	sort.Strings(ks)
	s := []string{}
	for _, k := range ks {
		s = append(s, fmt.Sprintf("%s=%d", k, st[k]))
	}
	fmt.Fprintf(out, "Z %d %s\n", hid, strings.Join(s, " "))
}

func main() {
	seed := flag.Int64("seed", 1, "seed")
	nh := flag.Int("hist", 8, "number of histories")
	regimes := flag.String("regimes", "stress,stress,default,stress,window,stress,default,stress", "regime of history i = i-th entry (cyclic): stress | window | default")
	slines := flag.Int("slines", 1, "print the store traffic as S lines for the model replay (0 = oracle only)")
	only := flag.Int("only", -1, "run only this history index (replay)")
	windowCache := flag.Int("windowcache", 100, "cache size of the window regime (smallest size at which the unchanged node keeps running in round-robin gossip)")
	stressOps := flag.Int("stressops", 150000, "stress regime: abandon the history after this many store operations of the node")
	flag.Parse()
	out := bufio.NewWriterSize(os.Stdout, 1<<20)
	defer out.Flush()
	rl := strings.Split(*regimes, ",")
	master := rand.New(rand.NewSource(*seed))
	t0 := time.Now()
	for i := 0; i < *nh; i++ {
		regime := strings.TrimSpace(rl[i%len(rl)])
		hs := master.Int63()
		g := rand.New(rand.NewSource(hs ^ 0x5bd1e995))
		var n, cs, st, maxOps, target int
		ring := false
		switch regime {
		case "stress":
			// far below the window the node needs: almost everything is evicted, the node re-reads and re-saves
			// evicted events all the time and eventually fails on an evicted round (W4); the store must stay exact
			cs = []int{3, 4, 6, 10, 14, 20, 30}[g.Intn(7)]
			n = 2 + g.Intn(2)
			st = 80 + g.Intn(170)
			ring = g.Intn(2) == 0
			maxOps = *stressOps
		case "window":
			cs = *windowCache
			n = 2 + g.Intn(2)
			ring = true
			target = cs + 12 + g.Intn(14)
			st = 0
			maxOps = 4000000
		case "default":
			cs = 10000
			n = 2 + g.Intn(3)
			st = 150 + g.Intn(250)
			maxOps = 4000000
		default:
			die("unknown regime %q", regime)
		}
		if *only >= 0 && i != *only {
			continue
		}
		runHistory(out, hs, i, regime, n, cs, st, *slines != 0, ring, maxOps, target)
		out.Flush()
	}
	fmt.Fprintf(out, "# storehg: seed=%d hist=%d V=%d W=%d\n", *seed, *nh, totV, totW)
	fmt.Fprintf(os.Stderr, "storehg harness: %d histories in %.1fs, V=%d W=%d\n", *nh, time.Since(t0).Seconds(), totV, totW)
}

var _ = bytes.Equal
var _ = strconv.Itoa
