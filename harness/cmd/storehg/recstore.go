package main

// RecStore: recording decorator around the real *hg.BadgerStore of the persistent node.
//
//   - every ACKNOWLEDGED write (SetEvent / SetBlock / SetRound / SetFrame / SetPeerSet returning nil)
//     records the canonical text of the VALUE AT CALL TIME: the plain map "last acknowledged write
//     per key" (the trivially correct model of C16);
//   - every read, whoever issues it (the Hashgraph / core, or the harness), is checked against that
//     map: a read that falls through to the DB (the in-memory layer does not hold the key) must return
//     the last acknowledged write of the persisted fields; listings and counters must match;
//   - every operation is printed as an `S` line of cmd/store's grammar, so that runner/storedrv.ml
//     replays the traffic on the Coq store model (Store.bstep).  The model has value semantics, the
//     Hashgraph shares pointers with the store's cache; the translation is: a read that returns the
//     very object of the last acknowledged write of that key is printed with the ordinal of that
//     write's text, any other object (decoded from the DB) with the ordinal of its own text.

import (
	"fmt"
	"os"
	"runtime/debug"
	"strconv"
	"strings"

	cm "github.com/mosaicnetworks/babble/src/common"
	hg "github.com/mosaicnetworks/babble/src/hashgraph"
	"github.com/mosaicnetworks/babble/src/peers"
)

type evRec struct {
	id, c, idx, topo int
	hex              string
	text             string
	ptr              *hg.Event
	ord              int
	writes           int
}

type valRec struct {
	text   string
	ptr    interface{}
	ord    int
	writes int
}

type RecStore struct {
	hg.Store // the *hg.BadgerStore: everything not overridden passes through
	B        *hg.BadgerStore
	h        *hist

	ids     map[string]int // event hash -> id used in S lines (first sight)
	ev      map[string]*evRec
	evOrder []string
	part    map[int][]string // creator ordinal -> acknowledged event hashes, by index
	topo    map[int]string
	maxTopo int
	blk     map[int]*valRec
	rnd     map[int]*valRec
	frm     map[int]*valRec
	ps      map[int]*valRec
	parts   []int // participants in the order they were first added
	isPart  map[int]bool
	intern  map[string]int

	lastBlock, lastRound int
	wasReset             bool
	rejectedNew          int // new events refused by the store (topological index consumed: W3)
	burned               map[int]bool

	dirtyEv                               map[string]bool
	dirtyBlk, dirtyRnd, dirtyFrm, dirtyPs map[int]bool

	harness  bool   // the current call is issued by the harness, not by the node
	where    string // "" live; "reopen" after the final close/reopen
	lastMiss bool   // the last GetEvent/GetBlock fell through to the DB
	quietS   bool   // do not print S lines (reads on a snapshot copy)
}

func newRecStore(h *hist, b *hg.BadgerStore) *RecStore {
	return &RecStore{Store: b, B: b, h: h, ids: map[string]int{}, ev: map[string]*evRec{}, part: map[int][]string{},
		topo: map[int]string{}, maxTopo: -1, blk: map[int]*valRec{}, rnd: map[int]*valRec{}, frm: map[int]*valRec{}, ps: map[int]*valRec{},
		isPart: map[int]bool{}, intern: map[string]int{}, lastBlock: -1, lastRound: -1, burned: map[int]bool{},
		dirtyEv: map[string]bool{}, dirtyBlk: map[int]bool{}, dirtyRnd: map[int]bool{}, dirtyFrm: map[int]bool{}, dirtyPs: map[int]bool{}}
}

func errKind(err error) string {
	switch {
	case cm.IsStore(err, cm.TooLate):
		return "TooLate"
	case cm.IsStore(err, cm.SkippedIndex):
		return "SkippedIndex"
	case cm.IsStore(err, cm.UnknownParticipant):
		return "UnknownParticipant"
	case cm.IsStore(err, cm.Empty):
		return "Empty"
	case cm.IsStore(err, cm.KeyAlreadyExists):
		return "KeyAlreadyExists"
	default:
		return "KeyNotFound"
	}
}

func (r *RecStore) id(hex string) int {
	if id, ok := r.ids[hex]; ok {
		return id
	}
	id := len(r.ids) + 100
	r.ids[hex] = id
	return id
}

func (r *RecStore) ordOf(kind, text string) int {
	k := kind + "|" + text
	if o, ok := r.intern[k]; ok {
		return o
	}
	o := len(r.intern) + 1
	r.intern[k] = o
	return o
}

func (r *RecStore) by() string {
	if r.harness {
		return "harness"
	}
	return "node"
}

func (r *RecStore) emit(op, res string) {
	r.h.nStoreOps++
	r.h.opKinds[strings.SplitN(op, " ", 2)[0]]++
	if r.h.slines && !r.quietS {
		fmt.Fprintf(r.h.out, "S %d %d %s => %s\n", r.h.hid, r.h.cs, op, res)
		r.h.nS++
	}
}

func idsStr(prefix string, l []string) string {
	if len(l) == 0 {
		return prefix
	}
	return prefix + " " + strings.Join(l, " ")
}

func (r *RecStore) whereOf(miss bool) string {
	if r.where != "" {
		return r.where
	}
	if miss {
		return "cache-miss"
	}
	return "cache-hit"
}

/* ------------------------------------------------------------------ events */

func (r *RecStore) SetEvent(e *hg.Event) error {
	text := evText(e) // the value at call time
	hex := e.Hex()
	c := r.h.w.Ord(e.Creator())
	id := r.id(hex)
	ord := r.ordOf("E", text)
	op := fmt.Sprintf("SetEvent %d %d %d %d %d", id, c, e.Index(), e.VerifTopologicalIndex(), ord)
	rec := r.ev[hex]
	_, cerr := r.B.VerifInmem().GetEvent(hex) // InmemStore.SetEvent starts with the same GetEvent
	err := r.B.SetEvent(e)
	if err != nil {
		k := errKind(err)
		r.emit(op, "Err "+k)
		switch {
		case rec != nil && k == "TooLate":
			// W1: an update of a stored event that left both the event cache and the creator's rolling window
			r.h.wline("W1", op, "Err "+k, "Unit")
		case rec == nil:
			// the Hashgraph consumed a topological index before the store refused the new event (W3 / C11 gap)
			r.rejectedNew++
			r.burned[e.VerifTopologicalIndex()] = true
			r.h.wline("W3", op, "Err "+k, "Unit")
		default:
			r.h.violation("C16", "write-rejected", fmt.Sprintf("kind=event key=e%d op=%s impl=Err_%s", id, strings.ReplaceAll(op, " ", "_"), k))
		}
		return err
	}
	r.emit(op, "Unit")
	if rec == nil {
		r.h.w.RegisterEvent(e) // readable ordinals in the coordinates of V lines
		rec = &evRec{id: id, c: c, idx: e.Index(), topo: e.VerifTopologicalIndex(), hex: hex}
		r.ev[hex] = rec
		r.evOrder = append(r.evOrder, hex)
		if e.Index() != len(r.part[c]) {
			r.h.violation("C16", "event-index-not-next", fmt.Sprintf("key=e%d creator=%d index=%d stored=%d", id, c, e.Index(), len(r.part[c])))
		}
		r.part[c] = append(r.part[c], hex)
		if old, ok := r.topo[rec.topo]; ok && old != hex {
			r.h.violation("C16", "topological-index-reused", fmt.Sprintf("key=e%d topo=%d", id, rec.topo))
		}
		r.topo[rec.topo] = hex
		if rec.topo > r.maxTopo {
			r.maxTopo = rec.topo
		}
		r.h.nNewEvents++
	} else {
		r.h.nEventUpdates++
		if cerr != nil {
			r.h.nEvictedEventUpdates++ // an event that had left the cache is re-saved
		}
		if rec.ptr == e {
			r.h.nInPlaceUpdates++ // same object as the last write: an in-place mutation re-saved
		}
		if e.VerifTopologicalIndex() != rec.topo || e.Index() != rec.idx {
			r.h.violation("C16", "event-coordinates-changed", fmt.Sprintf("key=e%d topo=%d->%d", id, rec.topo, e.VerifTopologicalIndex()))
		}
	}
	rec.text, rec.ptr, rec.ord = text, e, ord
	rec.writes++
	r.dirtyEv[hex] = true
	return nil
}

func (r *RecStore) GetEvent(hex string) (*hg.Event, error) {
	_, cerr := r.B.VerifInmem().GetEvent(hex) // same effect on the LRU order as the first half of BadgerStore.GetEvent
	miss := cerr != nil
	e, err := r.B.GetEvent(hex)
	id := r.id(hex)
	rec := r.ev[hex]
	r.lastMiss = miss
	op := fmt.Sprintf("GetEvent %d", id)
	if err != nil {
		r.emit(op, "Err "+errKind(err))
		if rec != nil {
			r.h.violation("C16", "acknowledged-write-unreadable", fmt.Sprintf("kind=event where=%s by=%s key=e%d(c%d#%d) err=%s", r.whereOf(miss), r.by(), id, rec.c, rec.idx, errKind(err)))
		}
		r.h.nReadsUnknown++
		return e, err
	}
	var text string
	ord := 0
	if rec != nil && rec.ptr == e {
		ord = rec.ord
	} else {
		text = evText(e)
		ord = r.ordOf("E", text)
	}
	r.emit(op, fmt.Sprintf("Event %d %d %d %d %d", id, r.h.w.Ord(e.Creator()), e.Index(), e.VerifTopologicalIndex(), ord))
	if rec == nil {
		r.h.violation("C16", "read-of-unwritten-key", fmt.Sprintf("kind=event key=e%d", id))
		return e, err
	}
	if miss {
		r.h.nReadsMiss[b2i(r.harness)]++
	} else {
		r.h.nReadsHit[b2i(r.harness)]++
	}
	if miss || r.harness {
		if text == "" {
			text = evText(e)
		}
		if text != rec.text {
			r.h.differs("event", r.whereOf(miss), r.by(), fmt.Sprintf("e%d(c%d#%d)", id, rec.c, rec.idx), rec.text, text)
		}
	}
	return e, err
}

func (r *RecStore) ParticipantEvents(participant string, skip int) ([]string, error) {
	l, err := r.B.ParticipantEvents(participant, skip)
	c := r.h.w.Ord(participant)
	op := fmt.Sprintf("PEvents %d %d", c, skip)
	if err != nil {
		r.emit(op, "Err "+errKind(err))
		r.h.violation("C16", "participant-listing-error", fmt.Sprintf("by=%s creator=%d skip=%d err=%v", r.by(), c, skip, err))
		return l, err
	}
	ids := []string{}
	for _, x := range l {
		ids = append(ids, strconv.Itoa(r.id(x)))
	}
	impl := idsStr("Ids", ids)
	r.emit(op, impl)
	if skip >= -1 && !r.wasReset {
		wl := []string{}
		for i, x := range r.part[c] {
			if i > skip {
				wl = append(wl, strconv.Itoa(r.id(x)))
			}
		}
		if want := idsStr("Ids", wl); want != impl {
			r.h.violation("C16", "participant-listing", fmt.Sprintf("where=%s by=%s creator=%d skip=%d impl=%s want=%s", r.whereOf(false), r.by(), c, skip,
				strings.ReplaceAll(impl, " ", "_"), strings.ReplaceAll(want, " ", "_")))
		}
	}
	r.h.nListings++
	return l, err
}

func (r *RecStore) ParticipantEvent(participant string, index int) (string, error) {
	x, err := r.B.ParticipantEvent(participant, index)
	c := r.h.w.Ord(participant)
	op := fmt.Sprintf("PEvent %d %d", c, index)
	impl := "Err KeyNotFound"
	if err == nil {
		impl = "Id " + strconv.Itoa(r.id(x))
	}
	r.emit(op, impl)
	if !r.wasReset {
		want := "Err KeyNotFound"
		if index >= 0 && index < len(r.part[c]) {
			want = "Id " + strconv.Itoa(r.id(r.part[c][index]))
		}
		if want != impl {
			r.h.violation("C16", "participant-event", fmt.Sprintf("by=%s creator=%d index=%d impl=%s want=%s", r.by(), c, index,
				strings.ReplaceAll(impl, " ", "_"), strings.ReplaceAll(want, " ", "_")))
		}
	}
	return x, err
}

func (r *RecStore) LastEventFrom(participant string) (string, error) {
	x, err := r.B.LastEventFrom(participant)
	c := r.h.w.Ord(participant)
	op := fmt.Sprintf("LastFrom %d", c)
	impl := ""
	if err != nil {
		impl = "Err " + errKind(err)
	} else {
		impl = "Id " + strconv.Itoa(r.id(x))
	}
	r.emit(op, impl)
	if !r.wasReset && r.where == "" {
		want := "Err UnknownParticipant"
		if r.isPart[c] {
			want = "Err Empty"
			if n := len(r.part[c]); n > 0 {
				want = "Id " + strconv.Itoa(r.id(r.part[c][n-1]))
			}
		}
		if want != impl {
			r.h.violation("C16", "last-event", fmt.Sprintf("by=%s creator=%d impl=%s want=%s", r.by(), c, strings.ReplaceAll(impl, " ", "_"), strings.ReplaceAll(want, " ", "_")))
		}
	}
	return x, err
}

func (r *RecStore) KnownEvents() map[uint32]int {
	known := r.B.KnownEvents()
	items, wl := []string{}, []string{}
	for _, c := range r.parts {
		last, ok := known[r.h.w.Peers[c].ID()]
		if !ok {
			last = -99
		}
		items = append(items, fmt.Sprintf("%d:%d", c, last))
		wl = append(wl, fmt.Sprintf("%d:%d", c, len(r.part[c])-1))
	}
	impl := idsStr("Known", items)
	r.emit("Known", impl)
	if want := idsStr("Known", wl); !r.wasReset && r.where == "" && (want != impl || len(known) != len(r.parts)) {
		r.h.violation("C16", "known-events", fmt.Sprintf("by=%s impl=%s want=%s", r.by(), strings.ReplaceAll(impl, " ", "_"), strings.ReplaceAll(want, " ", "_")))
	}
	return known
}

/* ------------------------------------------------------------------ rounds (cache only: W4) */

func (r *RecStore) SetRound(i int, ri *hg.RoundInfo) error {
	text := roundText(ri)
	ord := r.ordOf("R", text)
	op := fmt.Sprintf("SetRound %d %d", i, ord)
	if err := r.B.SetRound(i, ri); err != nil {
		r.emit(op, "Err "+errKind(err))
		r.h.violation("C16", "write-rejected", fmt.Sprintf("kind=round key=r%d err=%v", i, err))
		return err
	}
	r.emit(op, "Unit")
	rec := r.rnd[i]
	if rec == nil {
		rec = &valRec{}
		r.rnd[i] = rec
	}
	rec.text, rec.ptr, rec.ord = text, ri, ord
	rec.writes++
	if i > r.lastRound {
		r.lastRound = i
	}
	r.dirtyRnd[i] = true
	return nil
}

func (r *RecStore) GetRound(i int) (*hg.RoundInfo, error) {
	ri, err := r.B.GetRound(i)
	op := fmt.Sprintf("GetRound %d", i)
	rec := r.rnd[i]
	if err != nil {
		r.emit(op, "Err "+errKind(err))
		if rec != nil {
			// W4: GetRound never falls back to the DB
			r.h.w4[b2i(r.harness)]++
			if r.harness {
				r.h.wline("W4", op, "Err "+errKind(err), "Z "+strconv.Itoa(rec.ord))
			} else if os.Getenv("VERIF_STOREHG_DEBUG") != "" && r.h.w4[0] == 1 {
				fmt.Fprintf(os.Stderr, "first W4 by the node: GetRound(%d) lastRound=%d step=%d\n%s\n", i, r.lastRound, r.h.step, debug.Stack())
			}
		}
		return ri, err
	}
	ord := 0
	if rec != nil && rec.ptr == ri {
		ord = rec.ord
	} else {
		ord = r.ordOf("R", roundText(ri))
	}
	r.emit(op, "Z "+strconv.Itoa(ord))
	if rec == nil {
		r.h.violation("C16", "read-of-unwritten-key", fmt.Sprintf("kind=round key=r%d", i))
	} else if r.harness {
		if text := roundText(ri); text != rec.text {
			r.h.differs("round", r.whereOf(false), r.by(), fmt.Sprintf("r%d", i), rec.text, text)
		}
	}
	return ri, err
}

// RoundWitnesses / RoundEvents: BadgerStore implements them with its own GetRound; same here, so that
// the LRU touch is part of the trace.
func (r *RecStore) RoundWitnesses(i int) []string {
	ri, err := r.GetRound(i)
	if err != nil {
		return []string{}
	}
	return ri.Witnesses()
}

func (r *RecStore) RoundEvents(i int) int {
	ri, err := r.GetRound(i)
	if err != nil {
		return 0
	}
	return len(ri.CreatedEvents)
}

func (r *RecStore) LastRound() int {
	n := r.B.LastRound()
	if n != r.lastRound && !r.wasReset && r.where == "" {
		r.h.violation("C16", "last-round", fmt.Sprintf("by=%s impl=%d want=%d", r.by(), n, r.lastRound))
	}
	return n
}

/* ------------------------------------------------------------------ blocks */

func (r *RecStore) SetBlock(b *hg.Block) error {
	text := blockText(b)
	ord := r.ordOf("B", text)
	i := b.Index()
	op := fmt.Sprintf("SetBlock %d %d", i, ord)
	_, cerr := r.B.VerifInmem().GetBlock(i) // InmemStore.SetBlock starts with the same GetBlock
	evicted := cerr != nil
	if err := r.B.SetBlock(b); err != nil {
		r.emit(op, "Err "+errKind(err))
		r.h.violation("C16", "write-rejected", fmt.Sprintf("kind=block key=b%d err=%v", i, err))
		return err
	}
	r.emit(op, "Unit")
	rec := r.blk[i]
	if rec == nil {
		rec = &valRec{}
		r.blk[i] = rec
	} else {
		r.h.nBlockUpdates++
		if evicted {
			r.h.nLateBlockWrites++ // an old block, no longer cached, is re-saved (late signature)
		}
	}
	rec.text, rec.ptr, rec.ord = text, b, ord
	rec.writes++
	if i > r.lastBlock {
		r.lastBlock = i
	}
	r.dirtyBlk[i] = true
	return nil
}

func (r *RecStore) GetBlock(i int) (*hg.Block, error) {
	_, cerr := r.B.VerifInmem().GetBlock(i)
	miss := cerr != nil
	b, err := r.B.GetBlock(i)
	r.lastMiss = miss
	op := fmt.Sprintf("GetBlock %d", i)
	rec := r.blk[i]
	if err != nil {
		r.emit(op, "Err "+errKind(err))
		if rec != nil {
			r.h.violation("C16", "acknowledged-write-unreadable", fmt.Sprintf("kind=block where=%s by=%s key=b%d", r.whereOf(miss), r.by(), i))
			r.h.violation("C02", "stored-block-differs-from-delivered", fmt.Sprintf("where=%s key=b%d unreadable", r.whereOf(miss), i))
		}
		return b, err
	}
	var text string
	ord := 0
	if rec != nil && rec.ptr == b {
		ord = rec.ord
	} else {
		text = blockText(b)
		ord = r.ordOf("B", text)
	}
	r.emit(op, fmt.Sprintf("Block %d %d", b.Index(), ord))
	if rec == nil {
		r.h.violation("C16", "read-of-unwritten-key", fmt.Sprintf("kind=block key=b%d", i))
		return b, err
	}
	if miss {
		r.h.nBlockReadsMiss[b2i(r.harness)]++
	} else {
		r.h.nBlockReadsHit[b2i(r.harness)]++
	}
	if miss || r.harness {
		if text == "" {
			text = blockText(b)
		}
		if text != rec.text {
			r.h.differs("block", r.whereOf(miss), r.by(), fmt.Sprintf("b%d", i), rec.text, text)
		}
	}
	return b, err
}

func (r *RecStore) LastBlockIndex() int {
	n := r.B.LastBlockIndex()
	r.emit("LastBlock", "Z "+strconv.Itoa(n))
	if n != r.lastBlock && !r.wasReset && r.where == "" {
		r.h.violation("C16", "last-block", fmt.Sprintf("by=%s impl=%d want=%d", r.by(), n, r.lastBlock))
	}
	return n
}

/* ------------------------------------------------------------------ frames (cache only: W4) */

func (r *RecStore) SetFrame(f *hg.Frame) error {
	text := frameText(f)
	ord := r.ordOf("F", text)
	op := fmt.Sprintf("SetFrame %d %d", f.Round, ord)
	if err := r.B.SetFrame(f); err != nil {
		r.emit(op, "Err "+errKind(err))
		r.h.violation("C16", "write-rejected", fmt.Sprintf("kind=frame key=f%d err=%v", f.Round, err))
		return err
	}
	r.emit(op, "Unit")
	rec := r.frm[f.Round]
	if rec == nil {
		rec = &valRec{}
		r.frm[f.Round] = rec
	}
	rec.text, rec.ptr, rec.ord = text, f, ord
	rec.writes++
	r.dirtyFrm[f.Round] = true
	return nil
}

func (r *RecStore) GetFrame(i int) (*hg.Frame, error) {
	f, err := r.B.GetFrame(i)
	op := fmt.Sprintf("GetFrame %d", i)
	rec := r.frm[i]
	if err != nil {
		r.emit(op, "Err "+errKind(err))
		if rec != nil {
			r.h.w4[b2i(r.harness)]++
			if r.harness {
				r.h.wline("W4", op, "Err "+errKind(err), "Z "+strconv.Itoa(rec.ord))
			}
		}
		return f, err
	}
	ord := 0
	if rec != nil && rec.ptr == f {
		ord = rec.ord
	} else {
		ord = r.ordOf("F", frameText(f))
	}
	r.emit(op, "Z "+strconv.Itoa(ord))
	if rec == nil {
		r.h.violation("C16", "read-of-unwritten-key", fmt.Sprintf("kind=frame key=f%d", i))
	} else if r.harness {
		if text := frameText(f); text != rec.text {
			r.h.differs("frame", r.whereOf(false), r.by(), fmt.Sprintf("f%d", i), rec.text, text)
		}
	}
	return f, err
}

/* ------------------------------------------------------------------ peer sets, roots, reset */

func (r *RecStore) SetPeerSet(round int, ps *peers.PeerSet) error {
	text := psText(ps)
	if err := r.B.SetPeerSet(round, ps); err != nil {
		r.h.opKinds["SetPeerSet-rejected"]++
		return err
	}
	for _, p := range ps.Peers {
		c := r.h.w.Ord(p.PubKeyHex)
		if !r.isPart[c] {
			r.isPart[c] = true
			r.parts = append(r.parts, c)
		}
		r.emit(fmt.Sprintf("AddP %d", c), "Unit")
	}
	r.h.opKinds["SetPeerSet"]++
	rec := r.ps[round]
	if rec == nil {
		rec = &valRec{}
		r.ps[round] = rec
	}
	rec.text, rec.ptr = text, ps
	rec.writes++
	r.dirtyPs[round] = true
	return nil
}

func (r *RecStore) GetPeerSet(round int) (*peers.PeerSet, error) {
	ps, err := r.B.GetPeerSet(round)
	r.h.opKinds["GetPeerSet"]++
	if r.wasReset || r.where != "" {
		return ps, err
	}
	// the peer-set effective at `round`: the recorded set with the greatest key <= round (or the first one)
	best, first, ok := -1, -1, false
	for k := range r.ps {
		if k <= round && (!ok || k > best) {
			best, ok = k, true
		}
		if first < 0 || k < first {
			first = k
		}
	}
	if !ok {
		best = first
	}
	if best < 0 {
		return ps, err
	}
	if err != nil {
		r.h.violation("C16", "acknowledged-write-unreadable", fmt.Sprintf("kind=peerset by=%s round=%d", r.by(), round))
	} else if t := psText(ps); t != r.ps[best].text {
		r.h.differs("peerset", "cache-hit", r.by(), fmt.Sprintf("ps%d", best), r.ps[best].text, t)
	}
	return ps, err
}

func (r *RecStore) Reset(f *hg.Frame) error {
	err := r.B.Reset(f)
	r.h.opKinds["Reset"]++
	if err == nil {
		r.wasReset = true
	}
	return err
}

func b2i(b bool) int {
	if b {
		return 1
	}
	return 0
}
