//go:build verif

// Command winfork (C01 / C10): replays the "window fork" on two real node.core objects.
//
// Known finding C01-window-fork / C10-window: a validator-set change decided in the block of
// round-received rr takes effect at round rr+6 (core.processAcceptedInternalTransactions), on the
// assumption that the fame of round rr is decided before any event is divided into round rr+6.
// Nothing enforces that. In the recorded history (4 validators, 142 valid fork-free gossip events,
// one accepted join in the first block, five events whose hash has a zero middle byte = coin bit
// false) the first block is committed only when round 9 exists. Node A (creation order) has by
// then divided 21 events into rounds 7..9 with the four-peer set; node B (the ancestors of the
// deciding event first, then the rest: also a topological order of the SAME events) divides some
// of them after the commit, with the five-peer set. Events 114 and 116 get round 9 in A, round 8
// in B, and the blocks of index 8 differ: a fork of the ledger between two honest nodes.
//
// Third scenario (corpus field "leave": true, "validators": 5), known finding C01-shrink-fork: DecideFame decides
// with the super-majority of round j's peer-set while the votes it counts are those of the round j-1 witnesses;
// when the set shrinks from 5 to 4 at round j, 3 equal votes decide where 4 are needed, and two honest nodes
// decide the fame of one witness differently (distance bound respected, same validator-set table on both).
//
//	winfork corpus/C01-window-fork.json        replay; trace for the runner on stdout
//	winfork -gen spec.json > corpus.json       build a corpus (fresh keys; grinds the timestamps)
//
// The corpus pins everything that enters a hash or an ordering: the five private keys, the
// signature of the join request (part of the first event's body), every event's timestamp and
// signature. Replaying takes well under a second. Exit status 3 + a line "# NOT-STAGED ..." when
// the recorded hashes can no longer be reproduced (an event field changed): the caller reports a
// broken correspondence.
//
// Output: the usual trace (N / B / I / o / K lines) of both nodes, so that the runner replays both
// on the Coq model (the model forks in the same way: 0 DIFF expected), then
//
//	V C10 validator-set-used-before-it-was-final scenario=%s ...
//	V C01 blocks-differ-under-late-membership-change scenario=%s ...
//	Z 0 ...statistics
package main

import (
	"bufio"
	"encoding/hex"
	"encoding/json"
	"flag"
	"fmt"
	"os"
	"strings"

	"github.com/mosaicnetworks/babble/src/common"
	"github.com/mosaicnetworks/babble/src/crypto/keys"
	hg "github.com/mosaicnetworks/babble/src/hashgraph"
	"github.com/mosaicnetworks/babble/src/peers"
	"verifharness/hx"
)

type evRec struct {
	ID      int    `json:"id"`
	Creator int    `json:"creator"`
	Index   int    `json:"index"`
	Sp      int    `json:"sp"`
	Op      int    `json:"op"`
	Coin    int    `json:"coin"`
	Ts      int64  `json:"ts,omitempty"`
	Sig     string `json:"sig,omitempty"`
	Hex     string `json:"hex,omitempty"`
}

type corpus struct {
	Scenario string `json:"scenario"`
	Comment  string `json:"comment,omitempty"`
	// number of genesis validators (default 4). The nodes run with one more key (index = Validators): the joiner
	// of the join scenarios, a plain observer in the leave scenario.
	Validators int `json:"validators,omitempty"`
	// Leave: the first event of creator 0 carries "peer Validators-1 LEAVES" instead of "peer 4 joins"
	Leave bool `json:"leave,omitempty"`
	Keys    []string `json:"keys,omitempty"`     // private keys, hex (test keys): validators 0..3, joiner 4
	JoinSig string   `json:"join_sig,omitempty"` // signature of the join / leave request carried by the first event of creator 0
	Events  []evRec  `json:"events"`
	OrderB  []int    `json:"order_b"`
}

func (c *corpus) nval() int {
	if c.Validators > 0 {
		return c.Validators
	}
	return 4
}

func middleZero(hexs string) bool {
	h, _ := common.DecodeFromString(hexs)
	return len(h) > 0 && h[len(h)/2] == 0
}

func addKey(w *hx.World, privHex string) error {
	raw, err := hex.DecodeString(privHex)
	if err != nil {
		return err
	}
	k, err := keys.ParsePrivateKey(raw)
	if err != nil {
		return err
	}
	p := peers.NewPeer(keys.PublicKeyHex(&k.PublicKey), fmt.Sprintf("addr%d", len(w.Peers)), fmt.Sprintf("m%d", len(w.Peers)))
	w.Privs = append(w.Privs, k)
	w.KeyOrd[p.PubKeyString()] = len(w.Peers)
	w.Peers = append(w.Peers, p)
	return nil
}

// build makes event r (parents already built); when gen is set the timestamp is searched and the event signed
func build(w *hx.World, c *corpus, evs []*hg.Event, r *evRec, gen bool) (*hg.Event, error) {
	hexOf := func(id int) string {
		if id < 0 {
			return ""
		}
		return evs[id].Hex()
	}
	var itxs []hg.InternalTransaction
	if r.Creator == 0 && r.Index == 0 {
		who := 4
		itx := hg.NewInternalTransactionJoin(*w.Peers[4])
		if c.Leave {
			who = c.nval() - 1
			itx = hg.NewInternalTransactionLeave(*w.Peers[who])
		}
		if gen && c.JoinSig == "" {
			if err := itx.Sign(w.Privs[who]); err != nil {
				return nil, err
			}
			c.JoinSig = itx.Signature
		}
		itx.Signature = c.JoinSig
		itxs = append(itxs, itx)
	}
	txs := [][]byte{[]byte(fmt.Sprintf("%d", r.ID+1))} // serial = id + 1 (hx.TxSerialOf)
	pub := keys.FromPublicKey(&w.Privs[r.Creator].PublicKey)
	mk := func(ts int64) *hg.Event {
		ev := hg.NewEvent(txs, itxs, nil, []string{hexOf(r.Sp), hexOf(r.Op)}, pub, r.Index)
		ev.Body.Timestamp = ts
		return ev
	}
	if gen {
		for ts := int64(1700000000); ; ts++ {
			ev := mk(ts)
			if middleZero(ev.Hex()) == (r.Coin == 0) {
				if err := ev.Sign(w.Privs[r.Creator]); err != nil {
					return nil, err
				}
				r.Ts, r.Sig, r.Hex = ts, ev.Signature, ev.Hex()
				return ev, nil
			}
		}
	}
	ev := mk(r.Ts)
	ev.Signature = r.Sig
	if ev.Hex() != r.Hex {
		return nil, fmt.Errorf("event %d: hash %s, recorded %s", r.ID, ev.Hex(), r.Hex)
	}
	if middleZero(ev.Hex()) != (r.Coin == 0) {
		return nil, fmt.Errorf("event %d: coin bit differs from the recorded one", r.ID)
	}
	return ev, nil
}

func main() {
	gen := flag.String("gen", "", "spec file (events without timestamps): write a corpus to stdout")
	flag.Parse()
	out := bufio.NewWriter(os.Stdout)
	defer out.Flush()
	path := *gen
	if path == "" {
		if flag.NArg() != 1 {
			fmt.Fprintln(os.Stderr, "usage: winfork corpus.json | winfork -gen spec.json")
			os.Exit(2)
		}
		path = flag.Arg(0)
	}
	f, err := os.Open(path)
	if err != nil {
		fmt.Fprintln(os.Stderr, err)
		os.Exit(2)
	}
	var c corpus
	if err := json.NewDecoder(f).Decode(&c); err != nil {
		fmt.Fprintln(os.Stderr, err)
		os.Exit(2)
	}
	var w *hx.World
	if *gen != "" {
		w = hx.NewWorld(bufio.NewWriter(os.Stderr))
		c.Keys = nil
		for i := 0; i < c.nval()+1; i++ {
			w.AddKey()
			c.Keys = append(c.Keys, hex.EncodeToString(keys.DumpPrivateKey(w.Privs[i])))
		}
	} else {
		w = hx.NewWorld(out)
		for _, k := range c.Keys {
			if err := addKey(w, k); err != nil {
				fmt.Fprintf(out, "# NOT-STAGED bad key: %v\n", err)
				out.Flush()
				os.Exit(3)
			}
		}
	}
	evs := make([]*hg.Event, len(c.Events))
	for i := range c.Events {
		ev, err := build(w, &c, evs, &c.Events[i], *gen != "")
		if err != nil {
			fmt.Fprintf(out, "# NOT-STAGED %v\n", err)
			out.Flush()
			os.Exit(3)
		}
		evs[c.Events[i].ID] = ev
		w.RegisterEvent(ev)
	}
	if *gen != "" {
		enc := json.NewEncoder(out)
		enc.SetIndent("", " ")
		enc.Encode(&c)
		return
	}
	scen := c.Scenario
	if scen == "" {
		scen = "window-fork"
	}
	fmt.Fprintf(out, "H 0\n")
	genesis := []int{}
	for i := 0; i < c.nval(); i++ {
		genesis = append(genesis, i)
	}
	type obs struct {
		nd       *hx.Node
		entryAt  int // event whose insertion wrote the new peer-set entry
		lastRnd  int // last round after that insertion
		divided  int // events already in rounds >= the entry's round before it
		entryRnd int
	}
	run := func(id int, order []int) *obs {
		o := &obs{entryAt: -1}
		o.nd = w.NewNode(id, c.nval(), genesis, genesis, hg.NewInmemStore(10000))
		for _, eid := range order {
			ev := &hg.Event{Body: evs[eid].Body, Signature: evs[eid].Signature}
			psBefore, _ := o.nd.Store.GetAllPeerSets()
			before := len(psBefore)
			if err := o.nd.Core.InsertEventAndRunConsensus(ev, true); err != nil {
				fmt.Fprintf(out, "# node %d: insertion of %d failed: %v\n", id, eid, err)
			}
			psAfter, _ := o.nd.Store.GetAllPeerSets()
			if len(psAfter) > before && o.entryAt < 0 {
				mx := 0
				for r := range psAfter {
					if r > mx {
						mx = r
					}
				}
				o.entryAt, o.entryRnd, o.lastRnd = eid, mx, o.nd.Store.LastRound()
				for x := range evs {
					if se, err := o.nd.Store.GetEvent(evs[x].Hex()); err == nil && x != eid {
						if r, ok := se.VerifRound(); ok && r >= o.entryRnd {
							o.divided++
						}
					}
				}
			}
			o.nd.AfterAction(false)
		}
		return o
	}
	orderA := make([]int, len(evs))
	for i := range orderA {
		orderA[i] = i
	}
	a := run(0, orderA)
	b := run(1, c.OrderB)
	// oracles
	for _, o := range []*obs{a, b} {
		if o.entryAt >= 0 && o.entryRnd <= o.lastRnd {
			old, _ := o.nd.Store.GetPeerSet(o.entryRnd - 1)
			cur, _ := o.nd.Store.GetPeerSet(o.entryRnd)
			w.Violation("C10", "validator-set-used-before-it-was-final",
				fmt.Sprintf("scenario=%s node=%d entry-round=%d written-at-event=%d last-round=%d events-already-in-rounds>=%d:%d divided-with=%d final=%d",
					scen, o.nd.ID, o.entryRnd, o.entryAt, o.lastRnd, o.entryRnd, o.divided, len(old.Peers), len(cur.Peers)))
		}
	}
	txs := func(bl *hg.Block) string {
		s := []string{}
		for _, t := range bl.Transactions() {
			s = append(s, fmt.Sprintf("%d", hx.TxSerialOf(t)-1))
		}
		return strings.Join(s, ",")
	}
	forks := 0
	for i := 0; i <= a.nd.Store.LastBlockIndex() && i <= b.nd.Store.LastBlockIndex(); i++ {
		ba, e1 := a.nd.Store.GetBlock(i)
		bb, e2 := b.nd.Store.GetBlock(i)
		if e1 != nil || e2 != nil {
			break
		}
		if a.nd.BlockBodyStr(ba, false) != b.nd.BlockBodyStr(bb, false) || string(ba.FrameHash()) != string(bb.FrameHash()) {
			forks++
			if forks == 1 {
				class := "blocks-differ-under-late-membership-change"
				if c.Leave {
					class = "blocks-differ-after-validator-set-shrink"
				}
				w.Violation("C01", class,
					fmt.Sprintf("scenario=%s block=%d rr=%d/%d txs-a=%s txs-b=%s frame-a=%X frame-b=%X",
						scen, i, ba.RoundReceived(), bb.RoundReceived(), txs(ba), txs(bb), ba.FrameHash()[:6], bb.FrameHash()[:6]))
			}
		}
	}
	rdiff := []string{}
	for x := range evs {
		ea, e1 := a.nd.Store.GetEvent(evs[x].Hex())
		eb, e2 := b.nd.Store.GetEvent(evs[x].Hex())
		if e1 != nil || e2 != nil {
			continue
		}
		ra, _ := ea.VerifRound()
		rb, _ := eb.VerifRound()
		if ra != rb {
			rdiff = append(rdiff, fmt.Sprintf("%d:%d/%d", x, ra, rb))
		}
	}
	// witnesses whose fame the two nodes decided differently
	fdiff := []string{}
	for r := 0; r <= a.nd.Store.LastRound() && r <= b.nd.Store.LastRound(); r++ {
		ra, e1 := a.nd.Store.GetRound(r)
		rb, e2 := b.nd.Store.GetRound(r)
		if e1 != nil || e2 != nil {
			continue
		}
		for x := range evs {
			ca, ok1 := ra.CreatedEvents[evs[x].Hex()]
			cb, ok2 := rb.CreatedEvents[evs[x].Hex()]
			if ok1 && ok2 && ca.Witness && cb.Witness && ca.Famous != common.Undefined && cb.Famous != common.Undefined && ca.Famous != cb.Famous {
				fdiff = append(fdiff, fmt.Sprintf("%d@%d:%v/%v", x, r, ca.Famous, cb.Famous))
			}
		}
	}
	fmt.Fprintf(out, "Z 0 n=%d events=%d blocks-a=%d blocks-b=%d forked-blocks=%d rounds-differ=%d fame-differs=%d\n", c.nval(), len(evs),
		a.nd.Store.LastBlockIndex()+1, b.nd.Store.LastBlockIndex()+1, forks, len(rdiff), len(fdiff))
	fmt.Fprintf(out, "# rounds A/B: %s\n", strings.Join(rdiff, " "))
	fmt.Fprintf(out, "# fame A/B: %s\n", strings.Join(fdiff, " "))
}
