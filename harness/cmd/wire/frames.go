package main

import (
	"bufio"
	"crypto/sha256"
	"fmt"
	"math/rand"
	"os"
	"os/exec"
	"reflect"
	"sort"
	"strings"
	"time"
	"unicode/utf8"

	"github.com/mosaicnetworks/babble/src/common"
	hg "github.com/mosaicnetworks/babble/src/hashgraph"
	"github.com/mosaicnetworks/babble/src/peers"
)

// ---------------------------------------------------------------------------------------------
// blocks

func blockStrings(b *hg.Block, f func(string)) {
	for k, v := range b.Signatures {
		f(k)
		f(v)
	}
	for i := range b.Body.InternalTransactions {
		t := &b.Body.InternalTransactions[i]
		f(t.Signature)
		peerStrings(&t.Body.Peer, f)
	}
	for i := range b.Body.InternalTransactionReceipts {
		t := &b.Body.InternalTransactionReceipts[i].InternalTransaction
		f(t.Signature)
		peerStrings(&t.Body.Peer, f)
	}
}

func blockDiff(a, b *hg.Block) string {
	if d := itxsDiff("Block.Body", a.Body.InternalTransactions, b.Body.InternalTransactions); d != "" {
		return d
	}
	ra, rb := a.Body.InternalTransactionReceipts, b.Body.InternalTransactionReceipts
	if len(ra) == len(rb) {
		for i := range ra {
			if d := peerDiff(fmt.Sprintf("Block.Body.InternalTransactionReceipts[%d].InternalTransaction.Body.Peer", i),
				&ra[i].InternalTransaction.Body.Peer, &rb[i].InternalTransaction.Body.Peer); d != "" {
				return d
			}
		}
	}
	ka, kb := []string{}, []string{}
	for k := range a.Signatures {
		ka = append(ka, k)
	}
	for k := range b.Signatures {
		kb = append(kb, k)
	}
	return keySetDiff("Block.Signatures", ka, kb)
}

func frameDiff(a, b *hg.Frame) string {
	if d := peerListDiff("Frame.Peers", a.Peers, b.Peers); d != "" {
		return d
	}
	for r, ps := range a.PeerSets {
		if d := peerListDiff(fmt.Sprintf("Frame.PeerSets[%d]", r), ps, b.PeerSets[r]); d != "" {
			return d
		}
	}
	ka, kb := []string{}, []string{}
	for k := range a.Roots {
		ka = append(ka, k)
	}
	for k := range b.Roots {
		kb = append(kb, k)
	}
	return keySetDiff("Frame.Roots", ka, kb)
}

// freshBlockHex recomputes the block hash without the private cache
func freshBlockHex(b *hg.Block) string {
	m, err := b.Marshal()
	if err != nil {
		return "ERR"
	}
	h := sha256.Sum256(m)
	return common.EncodeToString(h[:])
}

func bodyHex(b *hg.Block) string {
	h, err := b.Body.Hash()
	if err != nil {
		return "ERR"
	}
	return common.EncodeToString(h)
}

func validSigs(b *hg.Block) (int, int) {
	n, k := 0, 0
	for _, s := range b.GetSignatures() {
		n++
		if safeBlockVerify(b, s) {
			k++
		}
	}
	return k, n
}

func (w *world) blockCase(path string, b *hg.Block, sigOrder []string, get func() (*hg.Block, error), tag string) {
	t := &tw{a: w.a}
	t.tok("C15 B " + path)
	t.block(b, sigOrder)
	k0, n0 := validSigs(b)
	t.tok(fmt.Sprintf("v%d/%d", k0, n0))
	t.tok("=>")
	got, err := get()
	w.stats["block:"+path]++
	if err != nil {
		t.tok("ERR")
		fmt.Fprintln(out, t.String())
		violation("block-unreadable-through-"+path, tag+" "+err.Error())
		return
	}
	t.block(got, nil)
	bsame := bodyHex(got) == bodyHex(b)
	hsame := freshBlockHex(got) == freshBlockHex(b)
	k1, n1 := validSigs(got)
	t.tok(fmt.Sprintf("b%d", b2i(bsame)))
	t.tok(fmt.Sprintf("h%d", b2i(hsame)))
	t.tok(fmt.Sprintf("v%d/%d", k1, n1))
	fmt.Fprintln(out, t.String())
	valid, _ := stringsOK(func(f func(string)) { blockStrings(b, f) })
	if valid {
		if !bsame || !hsame {
			violation("hash-changed-through-block-"+path, tag)
		}
		if k0 != k1 || n0 != n1 {
			violation("signature-invalid-after-block-"+path, fmt.Sprintf("%s valid %d/%d -> %d/%d", tag, k0, n0, k1, n1))
		}
		contentChanged("block-"+path, tag, blockDiff(b, got))
		if !reflect.DeepEqual(b.Body, got.Body) || !reflect.DeepEqual(b.Signatures, got.Signatures) {
			violation("payload-changed", "block-"+path+" "+tag)
		}
	} else {
		w.stats["out-of-domain:block-"+path]++
	}
}

func (w *world) blockPaths(l *links, store *hg.BadgerStore, b *hg.Block, sigOrder []string, f *hg.Frame, tag string) {
	w.blockCase("marshal", b, sigOrder, func() (*hg.Block, error) {
		m, err := b.Marshal()
		if err != nil {
			return nil, err
		}
		r := &hg.Block{}
		return r, r.Unmarshal(m)
	}, tag)
	w.blockCase("badger", b, sigOrder, func() (*hg.Block, error) {
		if err := store.SetBlock(b); err != nil {
			return nil, err
		}
		return store.VerifDBGetBlock(b.Index())
	}, tag)
	for _, p := range []string{"tcp", "mem"} {
		p := p
		w.blockCase(p, b, sigOrder, func() (*hg.Block, error) {
			rb, _, err := l.sendFF(p, b, f)
			return rb, err
		}, tag)
	}
}

// ---------------------------------------------------------------------------------------------
// frames

func frameStrings(f *hg.Frame, visit func(string)) {
	for _, p := range f.Peers {
		if p != nil {
			peerStrings(p, visit)
		}
	}
	fes := func(l []*hg.FrameEvent) {
		for _, fe := range l {
			if fe != nil && fe.Core != nil {
				eventStrings(fe.Core, visit)
			}
		}
	}
	for k, r := range f.Roots {
		visit(k)
		if r != nil {
			fes(r.Events)
		}
	}
	fes(f.Events)
	for _, ps := range f.PeerSets {
		for _, p := range ps {
			if p != nil {
				peerStrings(p, visit)
			}
		}
	}
}

func frameHasNilRoot(f *hg.Frame) bool {
	for _, r := range f.Roots {
		if r == nil {
			return true
		}
	}
	return false
}

func frameEvents(f *hg.Frame) []*hg.FrameEvent {
	l := []*hg.FrameEvent{}
	ks := []string{}
	for k := range f.Roots {
		ks = append(ks, k)
	}
	sort.Strings(ks)
	for _, k := range ks {
		if f.Roots[k] != nil {
			l = append(l, f.Roots[k].Events...)
		}
	}
	return append(l, f.Events...)
}

type hashRes struct {
	hex string
	err error
}

// frameHex computes Frame.Hash() under a watchdog (the codec may not terminate)
func frameHex(f *hg.Frame) (string, bool) {
	ch := make(chan hashRes, 1)
	go func() {
		h, err := f.Hash()
		ch <- hashRes{common.EncodeToString(h), err}
	}()
	select {
	case r := <-ch:
		if r.err != nil {
			return "ERR:" + r.err.Error(), true
		}
		return r.hex, true
	case <-time.After(20 * time.Second):
		return "", false
	}
}

func frameRisky(f *hg.Frame) bool {
	valid, noFFFD := stringsOK(func(v func(string)) { frameStrings(f, v) })
	return !valid || !noFFFD
}

// frameGet runs one conversion path of a frame
func (w *world) frameGet(path string, l *links, store *hg.BadgerStore, f *hg.Frame) (*hg.Frame, error) {
	switch path {
	case "marshal":
		m, err := f.Marshal()
		if err != nil {
			return nil, err
		}
		r := &hg.Frame{}
		return r, r.Unmarshal(m)
	case "badger":
		if err := store.SetFrame(f); err != nil {
			return nil, err
		}
		return store.VerifDBGetFrame(f.Round)
	default:
		_, rf, err := l.sendFF(path, hg.NewBlock(0, 0, []byte{}, []*peers.Peer{}, nil, nil, 0), f)
		return rf, err
	}
}

var framePaths = []string{"marshal", "badger", "tcp", "mem"}

// frameResult: the part of an F line after "=>"; stage is set to 1 once the original's hash is known
func (w *world) frameResult(path string, l *links, store *hg.BadgerStore, f *hg.Frame, tag string, stage func()) string {
	h0, ok := frameHex(f)
	if !ok {
		violation("frame-hash-hangs", "unexpected (not a risky shape) "+tag)
		out.Flush()
		os.Exit(3)
	}
	stage()
	got, err := w.frameGet(path, l, store, f)
	if err != nil {
		violation("frame-unreadable-through-"+path, tag+" "+err.Error())
		return "ERR"
	}
	h1, ok := frameHex(got)
	if !ok {
		violation("frame-hash-hangs", "unexpected, after "+path+" "+tag)
		out.Flush()
		os.Exit(3)
	}
	t := &tw{a: w.a}
	t.frame(got, nil, nil)
	same := h0 == h1
	t.tok(fmt.Sprintf("h%d", b2i(same)))
	// oracle
	valid, noFFFD := stringsOK(func(v func(string)) { frameStrings(f, v) })
	inDomain := valid && noFFFD && !(frameHasNilRoot(f) && (path == "marshal" || path == "badger"))
	if inDomain {
		if !same {
			violation("hash-changed-through-frame-"+path, tag)
		}
		contentChanged("frame-"+path, tag, frameDiff(f, got))
		a, b := frameEvents(f), frameEvents(got)
		if len(a) != len(b) {
			violation("payload-changed", "frame-"+path+" events "+tag)
		} else {
			for i := range a {
				if (a[i] == nil) != (b[i] == nil) || (a[i] != nil && (a[i].Core == nil) != (b[i].Core == nil)) {
					violation("payload-changed", "frame-"+path+" nil event "+tag)
					continue
				}
				if a[i] == nil || a[i].Core == nil {
					continue
				}
				if a[i].Core.Hex() != b[i].Core.Hex() || freshHex(b[i].Core) != a[i].Core.Hex() {
					violation("hash-changed-through-frame-"+path, "event "+tag)
				}
				if safeVerify(a[i].Core) != safeVerify(b[i].Core) {
					violation("signature-invalid-after-frame-"+path, tag)
				}
				contentChanged("frame-"+path, tag, eventDiff(a[i].Core, b[i].Core))
				if !payloadSame(a[i].Core, b[i].Core) || a[i].Round != b[i].Round || a[i].LamportTimestamp != b[i].LamportTimestamp || a[i].Witness != b[i].Witness {
					violation("payload-changed", "frame-"+path+" "+tag)
				}
			}
		}
	} else {
		w.stats["out-of-domain:frame-"+path]++
	}
	return t.String()
}

func (w *world) frameCase(path string, l *links, store *hg.BadgerStore, f *hg.Frame, ro []string, po []int, tag string) {
	if path == framePaths[0] {
		_, ok := frameValidator(f)
		w.textLine("frame", func(t *tw) { t.frame(f, ro, po) }, ok)
	}
	t := &tw{a: w.a}
	t.tok("C15 F " + path)
	t.frame(f, ro, po)
	t.tok("=>")
	t.tok(w.frameResult(path, l, store, f, tag, func() {}))
	fmt.Fprintln(out, t.String())
	w.stats["frame:"+path]++
}

// canonCase: the same content with the two maps filled in another order (and another history of
// insertions / deletions), hashed "by another node" (fresh Peer objects with their id cache filled)
func (w *world) canonCase(f *hg.Frame, ro []string, po []int, tag string) {
	g := &hg.Frame{Round: f.Round, Events: f.Events, Timestamp: f.Timestamp}
	if f.Peers != nil {
		g.Peers = make([]*peers.Peer, len(f.Peers))
		for i, p := range f.Peers {
			if p != nil {
				g.Peers[i] = rawPeer(p.PubKeyHex, p.NetAddr, p.Moniker)
				if len(p.PubKeyHex) > 2 {
					g.Peers[i].ID() // fills the private id cache
				}
			}
		}
	}
	ro2 := append([]string{}, ro...)
	po2 := append([]int{}, po...)
	w.rng.Shuffle(len(ro2), func(i, j int) { ro2[i], ro2[j] = ro2[j], ro2[i] })
	w.rng.Shuffle(len(po2), func(i, j int) { po2[i], po2[j] = po2[j], po2[i] })
	if w.rng.Intn(2) == 0 {
		sort.Sort(sort.Reverse(sort.StringSlice(ro2)))
		sort.Sort(sort.Reverse(sort.IntSlice(po2)))
	}
	if f.Roots != nil {
		g.Roots = make(map[string]*hg.Root, w.rng.Intn(64))
		for i := 0; i < 20; i++ {
			g.Roots[fmt.Sprintf("dummy%d", i)] = nil
		}
		for _, k := range ro2 {
			g.Roots[k] = f.Roots[k]
		}
		for i := 0; i < 20; i++ {
			delete(g.Roots, fmt.Sprintf("dummy%d", i))
		}
	}
	if f.PeerSets != nil {
		g.PeerSets = map[int][]*peers.Peer{}
		for i := 0; i < 20; i++ {
			g.PeerSets[100000+i] = nil
		}
		for _, k := range po2 {
			g.PeerSets[k] = f.PeerSets[k]
		}
		for i := 0; i < 20; i++ {
			delete(g.PeerSets, 100000+i)
		}
	}
	t := &tw{a: w.a}
	t.tok("C15 C")
	t.frame(f, ro, po)
	t.tok("|")
	t.frame(g, ro2, po2)
	t.tok("=>")
	h0, ok0 := frameHex(f)
	h1, ok1 := frameHex(g)
	if !ok0 || !ok1 {
		violation("frame-hash-hangs", "unexpected (canonical) "+tag)
		out.Flush()
		os.Exit(3)
	}
	t.tok(fmt.Sprintf("same%d", b2i(h0 == h1)))
	fmt.Fprintln(out, t.String())
	w.stats["canon"]++
	if len(ro) >= 2 || len(po) >= 2 {
		w.stats["canon-nontrivial"]++
	}
	if h0 != h1 {
		violation("frame-hash-depends-on-map-order", tag)
	}
}

// ---------------------------------------------------------------------------------------------
// real blocks and frames of a consensus run

func (s *scen) realBlocksAndFrames() {
	w := s.w
	for _, b := range s.blocks {
		f, err := s.A.Store.GetFrame(b.RoundReceived())
		if err != nil {
			die("GetFrame: %v", err)
		}
		// hashes depend on the (randomised) ECDSA signatures inside the events: print them as atoms
		w.a.B(b.Body.FrameHash)
		w.a.B(b.Body.PeersHash)
		order := []string{}
		for k := 0; k < nValidators; k++ {
			if w.rng.Intn(4) == 0 {
				continue
			}
			sig, err := b.Sign(w.privs[k])
			if err != nil {
				die("block sign: %v", err)
			}
			w.a.G(sig.Signature)
			b.SetSignature(sig)
			order = append(order, sig.ValidatorHex())
		}
		tag := fmt.Sprintf("real-block-%d", b.Index())
		w.stats["real-blocks"]++
		w.stats[fmt.Sprintf("real-frame-events:%d", min(len(f.Events)/5*5, 30))]++
		w.blockPaths(s.l, s.cstore, b, order, f, tag)
		ro := []string{}
		for k := range f.Roots {
			ro = append(ro, k)
		}
		sort.Strings(ro)
		po := []int{}
		for k := range f.PeerSets {
			po = append(po, k)
		}
		sort.Ints(po)
		for _, p := range framePaths {
			w.frameCase(p, s.l, s.cstore, f, ro, po, tag)
		}
		w.canonCase(f, ro, po, tag)
		s.rewire(b, f, tag)
	}
}

// rewire (oracle only): a node resets from the block and frame it received (Hashgraph.Reset, which
// inserts every frame event with InsertFrameEvent), then serves those events in wire form
// (Store.GetEvent + ToWire, what core.eventDiff / toWire do) to a third node that knows their parents.
// Through the TCP transport the private fields are not transmitted, and InsertFrameEvent does not
// recompute them.  Domain: events whose other-parent is empty or inside the frame (a sender cannot
// name a parent it does not have).
func (s *scen) rewire(b *hg.Block, f *hg.Frame, tag string) {
	for _, path := range []string{"tcp", "mem"} {
		rb, rf, err := s.l.sendFF(path, b, f)
		if err != nil {
			die("ff: %v", err)
		}
		D := hg.NewHashgraph(hg.NewInmemStore(10000), func(*hg.Block) error { return nil }, quiet)
		D.Init(peers.NewPeerSet(s.w.validators()))
		// C15 R case: the frame events as they arrived, in the order Reset inserts them
		sorted := rf.SortedFrameEvents()
		rt := &tw{a: s.w.a}
		rt.tok("C15 R " + path)
		s.storeTokens(rt, D, nil, nil)
		rt.tok("|")
		rt.hdr(false, len(sorted))
		for _, fe := range sorted {
			rt.str(fe.Core.Hex())
			rt.fevent(fe)
		}
		rt.tok("=>")
		if err := D.Reset(rb, rf); err != nil {
			violation("frame-rejected-after-"+path, tag+" "+err.Error())
			continue
		}
		for _, fe := range sorted {
			ev, err := D.Store.GetEvent(fe.Core.Hex())
			if err != nil {
				rt.tok("MISSING")
				continue
			}
			spi, opc, opi, cid := ev.VerifWireInfo()
			rt.u32(cid)
			rt.u32(opc)
			rt.int(spi)
			rt.int(opi)
			rt.int(ev.VerifTopologicalIndex())
			rt.optint(ev.VerifRound())
			rt.optint(ev.VerifLamport())
		}
		fmt.Fprintln(out, rt.String())
		s.w.stats["reset:"+path]++
		bad, n, outside, unordered := 0, 0, 0, 0
		served := []*hg.Event{}
		for _, fe := range rf.SortedFrameEvents() {
			orig, ok := s.byHex[fe.Core.Hex()]
			if !ok {
				continue
			}
			ev, err := D.Store.GetEvent(orig.Hex())
			if err != nil {
				violation("frame-event-missing-after-"+path, tag)
				continue
			}
			served = append(served, ev)
			if op := orig.OtherParent(); op != "" {
				if _, err := D.Store.GetEvent(op); err != nil {
					outside++
					continue
				}
			}
			n++
			got, err := s.B.ReadWireInfo(ev.ToWire())
			if err != nil || got.Hex() != orig.Hex() || !safeVerify(got) {
				bad++
			}
		}
		// the order in which core.eventDiff serves them: grouped by creator, then sort.Sort by the
		// private topological index
		sort.SliceStable(served, func(i, j int) bool { return served[i].Creator() < served[j].Creator() })
		sort.Sort(hg.ByTopologicalOrder(served))
		pos := map[string]int{}
		for i, ev := range served {
			pos[ev.Hex()] = i
		}
		for i, ev := range served {
			for _, p := range ev.Body.Parents {
				if j, ok := pos[p]; ok && j > i {
					unordered++
				}
			}
		}
		s.w.stats["rewire:"+path] += n
		s.w.stats["rewire-outside-frame:"+path] += outside
		fmt.Fprintf(out, "Z rewire %s events=%d unreadable-or-changed=%d other-parent-outside-frame=%d child-before-parent=%d\n", path, n, bad, outside, unordered)
		if bad > 0 {
			violation("wire-info-lost-through-frame-"+path, fmt.Sprintf("%s: %d of %d frame events cannot be converted to wire form and back", tag, bad, n))
		}
		if unordered > 0 {
			violation("wire-info-lost-through-frame-"+path, fmt.Sprintf("%s: frame events cannot be converted to wire form and back in topological order: %d children sort before a parent", tag, unordered))
		}
	}
}

// ---------------------------------------------------------------------------------------------
// synthetic blocks and frames over the shape product

// standalone signed event (parents are opaque hashes), with private fields set
func (w *world) looseEvent(rng *rand.Rand, sh evShape, signed bool) *hg.Event {
	creator := rng.Intn(nValidators)
	var itxs []hg.InternalTransaction
	var bsigs []hg.BlockSignature
	var txs [][]byte
	if signed {
		itxs, _ = w.itxs(sh.itx)
		bsigs, _, _ = w.bsigs(sh.bs, creator)
		txs = w.txs(sh.tx)
	}
	par := []string{"", ""}
	if rng.Intn(3) > 0 {
		par[0] = fmt.Sprintf("0X%064X", rng.Int63())
	}
	if rng.Intn(3) > 0 {
		par[1] = fmt.Sprintf("0X%064X", rng.Int63())
	}
	e := hg.NewEvent(txs, itxs, bsigs, par, w.pubs[creator], rng.Intn(100))
	e.Body.Timestamp = int64(rng.Intn(1 << 30))
	if signed {
		e.Sign(w.privs[creator])
		w.a.G(e.Signature)
		w.a.S(e.Hex())
	} else {
		e.Signature = fmt.Sprintf("sig%d", rng.Intn(1000))
	}
	e.SetWireInfo(rng.Intn(50)-1, uint32(rng.Intn(1<<31)), rng.Intn(50)-1, uint32(1+rng.Intn(1<<31)))
	e.VerifSetTopologicalIndex(rng.Intn(1000))
	if rng.Intn(2) == 0 {
		e.SetRound(rng.Intn(30))
		e.SetLamportTimestamp(rng.Intn(200))
	}
	if rng.Intn(2) == 0 {
		e.SetRoundReceived(rng.Intn(30))
	}
	return e
}

func (w *world) fevents(rng *rand.Rand, shape int, strShape int, signed bool) []*hg.FrameEvent {
	mk := func() *hg.FrameEvent {
		sh := evProduct[rng.Intn(len(evProduct)-10)]
		e := w.looseEvent(rng, sh, signed)
		if strShape >= strBadUTF8 {
			e.Body.InternalTransactions = append(e.Body.InternalTransactions, hg.InternalTransaction{
				Body: hg.InternalTransactionBody{Peer: *rawPeer(w.phex[4], "a", riskyStr(rng, strShape))}, Signature: "x"})
		}
		return &hg.FrameEvent{Core: e, Round: rng.Intn(30), LamportTimestamp: rng.Intn(300), Witness: rng.Intn(2) == 0}
	}
	switch shape {
	case 0:
		return nil
	case 1:
		return []*hg.FrameEvent{}
	case 2:
		return []*hg.FrameEvent{mk()}
	case 3:
		l := []*hg.FrameEvent{}
		for i, n := 0, 2+rng.Intn(4); i < n; i++ {
			l = append(l, mk())
		}
		return l
	case 4:
		return []*hg.FrameEvent{nil, mk()} // nil pointer element
	default:
		return []*hg.FrameEvent{{Core: nil, Round: 1}, mk()} // nil Core
	}
}

func riskyStr(rng *rand.Rand, shape int) string {
	if shape == strBadUTF8 {
		return []string{"bad\xffutf", "\xc3", "\xed\xa0\x80"}[rng.Intn(3)]
	}
	return []string{"�", "re�placed"}[rng.Intn(2)]
}

func (w *world) peerList(rng *rand.Rand, shape int, strShape int) []*peers.Peer {
	mon := func() string {
		if strShape >= strBadUTF8 {
			return riskyStr(rng, strShape)
		}
		return strOfR(rng, rng.Intn(8))
	}
	switch shape {
	case 0:
		return nil
	case 1:
		return []*peers.Peer{}
	case 2:
		k := rng.Intn(nKeys)
		return []*peers.Peer{w.anyPeer(rng, k, fmt.Sprintf("addr%d:1337", k), mon())}
	case 3:
		l := []*peers.Peer{}
		for i, n := 0, 2+rng.Intn(5); i < n; i++ {
			k := rng.Intn(nKeys)
			l = append(l, w.anyPeer(rng, k, fmt.Sprintf("addr%d:1337", k), mon()))
		}
		return l
	default:
		return []*peers.Peer{w.anyPeer(rng, 0, "addr0:1337", mon()), nil}
	}
}

var frameShapeNames = struct{ peers, roots, root, events, psets []string }{
	[]string{"nil", "empty", "one", "many", "nilptr"},
	[]string{"nil", "empty", "one", "many"},
	[]string{"evnil", "evempty", "one", "many", "nilelem", "nilcore", "NILROOT"},
	[]string{"nil", "empty", "one", "many", "nilelem", "nilcore"},
	[]string{"nil", "empty", "one", "many"},
}

// synFrame builds a frame of the given shape; returns the insertion orders of its maps
func (w *world) synFrame(rng *rand.Rand, sp, sr, srr, se, sps int, strShape int, signed bool) (*hg.Frame, []string, []int, string) {
	f := &hg.Frame{Round: rng.Intn(100), Timestamp: int64(rng.Intn(1 << 40))}
	if rng.Intn(10) == 0 {
		f.Timestamp = -f.Timestamp
	}
	f.Peers = w.peerList(rng, sp, strShape)
	var ro []string
	var po []int
	mkRoot := func(shape int) *hg.Root {
		if shape == 6 {
			return nil
		}
		return &hg.Root{Events: w.fevents(rng, shape, 0, signed)}
	}
	switch sr {
	case 0:
	case 1:
		f.Roots = map[string]*hg.Root{}
	default:
		f.Roots = map[string]*hg.Root{}
		n := 1
		if sr == 3 {
			n = 2 + rng.Intn(4)
		}
		perm := rng.Perm(nKeys)
		for i := 0; i < n; i++ {
			k := w.keySpelling(rng, perm[i]) // a Root key under some spelling of the participant's key
			shape := srr
			if i > 0 {
				shape = rng.Intn(4)
			}
			f.Roots[k] = mkRoot(shape)
			ro = append(ro, k)
		}
	}
	f.Events = w.fevents(rng, se, strShape, signed)
	switch sps {
	case 0:
	case 1:
		f.PeerSets = map[int][]*peers.Peer{}
	default:
		f.PeerSets = map[int][]*peers.Peer{}
		n := 1
		if sps == 3 {
			n = 2 + rng.Intn(5)
		}
		for i := 0; i < n; i++ {
			k := rng.Intn(120)
			if i == 0 && rng.Intn(4) == 0 {
				k = 0
			}
			if _, dup := f.PeerSets[k]; dup {
				continue
			}
			f.PeerSets[k] = w.peerList(rng, rng.Intn(5), 0)
			po = append(po, k)
		}
	}
	tag := fmt.Sprintf("peers:%s/roots:%s:%s/events:%s/psets:%s/str:%s", frameShapeNames.peers[sp], frameShapeNames.roots[sr],
		frameShapeNames.root[srr], frameShapeNames.events[se], frameShapeNames.psets[sps], strShapeNames[strShape])
	return f, ro, po, tag
}

func (w *world) synBlock(rng *rand.Rand, i int) (*hg.Block, []string, string) {
	shTx, shItx, shRc, shSig := i%8, (i/8)%5, (i/3)%4, (i/5)%4
	itxs, _ := w.itxs(shItx)
	var rcs []hg.InternalTransactionReceipt
	switch shRc {
	case 1:
		rcs = []hg.InternalTransactionReceipt{}
	case 2, 3:
		rcs = []hg.InternalTransactionReceipt{}
		for j := range itxs {
			if rng.Intn(2) == 0 {
				rcs = append(rcs, itxs[j].AsAccepted())
			} else {
				rcs = append(rcs, itxs[j].AsRefused())
			}
		}
	}
	bytesOf := func(k int) []byte {
		switch k % 3 {
		case 0:
			return nil
		case 1:
			return []byte{}
		}
		b := make([]byte, 32)
		rng.Read(b)
		return b
	}
	b := &hg.Block{Body: hg.BlockBody{Index: rng.Intn(1000), RoundReceived: rng.Intn(1000), Timestamp: w.timestamp(),
		StateHash: bytesOf(i), FrameHash: bytesOf(i / 3), PeersHash: bytesOf(i / 9),
		Transactions: w.txs(shTx), InternalTransactions: itxs, InternalTransactionReceipts: rcs}}
	var order []string
	switch shSig {
	case 0:
	case 1:
		b.Signatures = map[string]string{}
	default:
		b.Signatures = map[string]string{}
		perm := rng.Perm(nKeys)
		n := 1
		if shSig == 3 {
			n = 2 + rng.Intn(nKeys-2)
		}
		for j := 0; j < n; j++ {
			sig, _ := b.Sign(w.privs[perm[j]])
			w.a.G(sig.Signature)
			b.SetSignature(sig)
			k := sig.ValidatorHex()
			if alt := w.keySpelling(rng, perm[j]); alt != k {
				// the same signature filed under another spelling of the validator's key (a JSON object key)
				delete(b.Signatures, k)
				b.Signatures[alt] = sig.Signature
				k = alt
			}
			order = append(order, k)
		}
		if rng.Intn(4) == 0 { // a signature that does not verify, under an arbitrary key string
			k := w.strOf(1 + rng.Intn(7))
			b.Signatures[k] = w.strOf(rng.Intn(8))
			order = append(order, k)
		}
	}
	tag := fmt.Sprintf("tx:%s/itx:%s/rc:%d/sigs:%d", txShapeNames[shTx], itxShapeNames[shItx], shRc, shSig)
	return b, order, tag
}

func (w *world) syntheticCases(l *links, n int) {
	dir, err := os.MkdirTemp("", "verif-wire-syn-")
	if err != nil {
		die("tmp: %v", err)
	}
	defer os.RemoveAll(dir)
	store, err := hg.NewBadgerStore(3, dir, false, quiet)
	if err != nil {
		die("badger: %v", err)
	}
	defer store.Close()
	emptyFrame := &hg.Frame{}
	for i := 0; i < n; i++ {
		b, order, tag := w.synBlock(w.rng, i)
		w.shape["block:"+tag]++
		w.blockPaths(l, store, b, order, emptyFrame, tag)
	}
	for i := 0; i < n; i++ {
		// mixed-radix walk through the frame shape product; events signed in 1 of 3 frames (cost)
		sp, sr, srr, se, sps := i%5, (i/5)%4, (i/2)%7, (i/3)%6, (i/7)%4
		f, ro, po, tag := w.synFrame(w.rng, sp, sr, srr, se, sps, w.rng.Intn(8), i%3 == 0)
		w.shape["frame:"+tag[:strings.LastIndex(tag, "/str:")]]++
		for _, p := range framePaths {
			w.frameCase(p, l, store, f, ro, po, tag)
		}
		w.canonCase(f, ro, po, tag)
	}
}

// ---------------------------------------------------------------------------------------------
// risky cases (strings for which the frame codec may not terminate): each one runs in a child
// process with a deadline

func (w *world) riskyFrame(n int) (*hg.Frame, []string, []int, string) {
	rng := rand.New(rand.NewSource(seed*1000003 + int64(n)))
	strShape := strBadUTF8 + n%2
	switch (n / 2) % 4 {
	case 0: // only in the authoritative peer list
		return w.synFrame(rng, 2, 0, 0, 0, 0, strShape, false)
	case 1: // only in an internal transaction carried by a frame event
		return w.synFrame(rng, 0, 0, 0, 2, 0, strShape, false)
	case 2:
		return w.synFrame(rng, 3, 2, 2, 3, 2, strShape, false)
	default:
		return w.synFrame(rng, 1, 3, 3, 2, 3, strShape, false)
	}
}

func (w *world) riskyCases(nRisky int) {
	exe, err := os.Executable()
	if err != nil {
		die("executable: %v", err)
	}
	type job struct {
		head, res, viol string
		n               int
	}
	jobs := []*job{}
	done := make(chan bool)
	sem := make(chan bool, 6)
	rejected := map[int]bool{}
	for n := 0; n < nRisky; n++ {
		f, ro, po, tag := w.riskyFrame(n)
		present, ok := frameValidator(f)
		w.textLine("frame", func(t *tw) { t.frame(f, ro, po) }, ok)
		rejected[n] = present && !ok
		for _, path := range framePaths {
			t := &tw{a: w.a}
			t.tok("C15 F " + path)
			t.frame(f, ro, po)
			t.tok("=>")
			j := &job{head: t.String(), n: n}
			jobs = append(jobs, j)
			w.stats["frame-risky:"+path]++
			go func(n int, path, tag string) {
				sem <- true
				defer func() { <-sem; done <- true }()
				cmd := exec.Command(exe, "-seed", fmt.Sprint(seed), "-only", fmt.Sprintf("frame:%d:%s", n, path))
				pipe, err := cmd.StdoutPipe()
				if err != nil || cmd.Start() != nil {
					j.res = "CHILD-FAILED start"
					return
				}
				// the child prints READY (set-up done), STAGE1 (hash of the original computed), then the result
				lines := make(chan string, 4)
				go func() {
					sc := bufio.NewScanner(pipe)
					sc.Buffer(make([]byte, 1<<20), 1<<26)
					for sc.Scan() {
						lines <- sc.Text()
					}
					close(lines)
				}()
				stage := 0
				deadline := time.After(120 * time.Second) // set-up
				for j.res == "" {
					select {
					case l, ok := <-lines:
						switch {
						case !ok:
							j.res = "CHILD-FAILED exited at stage " + fmt.Sprint(stage)
						case l == "READY":
							stage = 1
							deadline = time.After(3 * time.Second)
						case l == "STAGE1":
							stage = 2
							deadline = time.After(3 * time.Second)
						case strings.HasPrefix(l, "RESULT "):
							j.res = strings.TrimPrefix(l, "RESULT ")
						}
					case <-deadline:
						switch stage {
						case 0:
							j.res = "CHILD-FAILED set-up timeout"
						case 1:
							j.res = "HANG0"
							j.viol = fmt.Sprintf("original %s", tag)
						default:
							j.res = "HANG1"
							j.viol = fmt.Sprintf("after-%s %s", path, tag)
						}
					}
				}
				cmd.Process.Kill()
				cmd.Wait()
			}(n, path, tag)
		}
	}
	for range jobs {
		<-done
	}
	for _, j := range jobs {
		if strings.HasPrefix(j.res, "CHILD-FAILED") {
			die("%s", j.res)
		}
		if j.viol != "" {
			if rejected[j.n] {
				// the raw codec still does not terminate on this text (C15_frame_hash_total_refuted, a fact
				// about the library), but Frame.ValidateText refuses it before anything hashes it
				fmt.Fprintf(out, "W C15 raw-codec-hangs-on-refused-text %s\n", j.viol)
				w.stats["raw-codec-hangs-on-refused-text"]++
			} else {
				violation("frame-hash-hangs", j.viol)
			}
		}
		fmt.Fprintln(out, j.head+" "+j.res)
	}
}

func (w *world) childCase(spec string) {
	var n int
	var path string
	parts := strings.Split(spec, ":")
	if len(parts) != 3 || parts[0] != "frame" {
		die("bad -only")
	}
	fmt.Sscan(parts[1], &n)
	path = parts[2]
	var l *links
	var store *hg.BadgerStore
	if path == "tcp" || path == "mem" {
		l = newLinks()
	}
	if path == "badger" {
		dir, _ := os.MkdirTemp("", "verif-wire-child-")
		defer os.RemoveAll(dir)
		var err error
		store, err = hg.NewBadgerStore(3, dir, false, quiet)
		if err != nil {
			die("badger: %v", err)
		}
	}
	f, _, _, tag := w.riskyFrame(n)
	fmt.Println("READY")
	res := w.frameResult(path, l, store, f, tag, func() { fmt.Println("STAGE1") })
	fmt.Println("RESULT " + res)
	os.Exit(0)
}

var _ = utf8.ValidString
