package main

import (
	"crypto/ecdsa"
	"fmt"
	"math"
	"math/rand"
	"strings"
	"unicode/utf8"

	"github.com/mosaicnetworks/babble/src/crypto/keys"
	hg "github.com/mosaicnetworks/babble/src/hashgraph"
	"github.com/mosaicnetworks/babble/src/peers"
)

const (
	nValidators = 4
	nKeys       = 7 // validators + joiners (targets of internal transactions)
)

type world struct {
	rng   *rand.Rand
	a     *atoms
	privs []*ecdsa.PrivateKey
	pubs  [][]byte
	phex  []string
	stats map[string]int
	shape map[string]int // shape-product coverage
}

func newWorld(seed int64) *world {
	w := &world{rng: rand.New(rand.NewSource(seed)), a: newAtoms(), stats: map[string]int{}, shape: map[string]int{}}
	for len(w.privs) < nKeys {
		d := make([]byte, 32)
		w.rng.Read(d)
		k, err := keys.ParsePrivateKey(d)
		if err != nil {
			continue
		}
		w.privs = append(w.privs, k)
		pub := keys.FromPublicKey(&k.PublicKey)
		w.pubs = append(w.pubs, w.a.B(pub))
		w.phex = append(w.phex, keys.PublicKeyHex(&k.PublicKey))
	}
	// every spelling of every key is an atom (same numbering in the parent and in child processes)
	for _, h := range w.phex {
		for v := range spellNames {
			w.a.S(spell(h, v))
		}
	}
	return w
}

// Key spellings.  Every string below names the same public key: hex decoding is case-insensitive
// (common.DecodeFromString skips the two prefix characters), maps are indexed by PubKeyString() = ToUpper.
// 0 is the canonical form keys.PublicKeyHex writes; the others are what users type (peers.json, join
// requests built by other tools).  They must survive every conversion unchanged: they are inside
// signed and hashed objects.
var spellNames = []string{"0X-upper", "0x-lower", "0X-lower", "0x-upper", "mixed"}

func spell(hexKey string, v int) string {
	body := hexKey[2:]
	switch v {
	case 1:
		return "0x" + strings.ToLower(body)
	case 2:
		return "0X" + strings.ToLower(body)
	case 3:
		return "0x" + strings.ToUpper(body)
	case 4:
		b := []byte(strings.ToLower(body))
		for i := 0; i < len(b); i += 3 {
			b[i] = strings.ToUpper(string(b[i]))[0]
		}
		return "0x" + string(b)
	}
	return "0X" + strings.ToUpper(body)
}

// keySpelling: the canonical spelling half of the time, otherwise one of the alternatives
func (w *world) keySpelling(rng *rand.Rand, i int) string {
	v := 0
	if rng.Intn(2) == 0 {
		v = 1 + rng.Intn(len(spellNames)-1)
	}
	w.stats["key-spelling:"+spellNames[v]]++
	return spell(w.phex[i], v)
}

// anyPeer: key i under some spelling, built with peers.NewPeer or as a struct literal (NewPeer only
// normalises NetAddr and Moniker, and only when they are not valid UTF-8)
func (w *world) anyPeer(rng *rand.Rand, i int, addr, moniker string) *peers.Peer {
	k := w.keySpelling(rng, i)
	if utf8.ValidString(moniker) && utf8.ValidString(addr) && rng.Intn(2) == 0 {
		return peers.NewPeer(k, addr, moniker)
	}
	return rawPeer(k, addr, moniker)
}

// rawPeer builds a Peer with exactly these strings (peers.NewPeer normalises invalid UTF-8 to U+FFFD
// since b2c4118; the shape product needs both)
func rawPeer(pubKeyHex, netAddr, moniker string) *peers.Peer {
	return &peers.Peer{PubKeyHex: pubKeyHex, NetAddr: netAddr, Moniker: moniker}
}

func (w *world) peer(i int, moniker string) *peers.Peer {
	return rawPeer(w.phex[i], fmt.Sprintf("addr%d:1337", i), moniker)
}

func (w *world) validators() []*peers.Peer {
	ps := []*peers.Peer{}
	for i := 0; i < nValidators; i++ {
		ps = append(ps, w.peer(i, fmt.Sprintf("m%d", i)))
	}
	return ps
}

// ---------------------------------------------------------------------------------------------
// strings

// string shapes: 0..7 are in the property's domain for every path; 8 = invalid UTF-8 (changed by
// encoding/json), 9 = contains U+FFFD (ugorji v1.1.7's JSON string writer does not terminate)
var strShapeNames = []string{"empty", "ascii", "html", "unicode", "control", "quote", "astral", "long", "BADUTF8", "UFFFD"}

const (
	strBadUTF8 = 8
	strUFFFD   = 9
)

func (w *world) strOf(shape int) string { return strOfR(w.rng, shape) }

func strOfR(rng *rand.Rand, shape int) string {
	switch shape {
	case 0:
		return ""
	case 1:
		return fmt.Sprintf("node-%d", rng.Intn(1000))
	case 2:
		return "<b>&amp;'x'</b>"
	case 3:
		return "café 日本   "
	case 4:
		return "a\x00b\x01\t\n\r\x1f\x7f"
	case 5:
		return `q"uo\te/`
	case 6:
		return "\U0001F600\U0010FFFF￾"
	case 7:
		return strings.Repeat("longé", 60)
	case strBadUTF8:
		return []string{"bad\xffutf", "\xc3", "\xed\xa0\x80", "x\xf0\x9f"}[rng.Intn(4)]
	default:
		return []string{"�", "re�placed", "��"}[rng.Intn(3)]
	}
}

func badUTF8(s string) bool  { return !utf8.ValidString(s) }
func hasUFFFD(s string) bool { return strings.Contains(s, "�") }

// ---------------------------------------------------------------------------------------------
// payload shapes

var txShapeNames = []string{"nil", "empty", "one-nil", "one-empty", "binary", "text", "large", "mixed"}

func (w *world) txBytes(kind int) []byte {
	switch kind {
	case 0:
		return nil
	case 1:
		return []byte{}
	case 2:
		b := make([]byte, 256)
		for i := range b {
			b[i] = byte(i)
		}
		return b
	case 3:
		return []byte(`{"json":"<tx>","n":` + fmt.Sprint(w.rng.Intn(1000)) + `}`)
	case 4:
		b := make([]byte, 1+w.rng.Intn(40))
		w.rng.Read(b)
		return b
	default:
		b := make([]byte, 1500+w.rng.Intn(1500))
		w.rng.Read(b)
		return b
	}
}

func (w *world) txs(shape int) [][]byte {
	switch shape {
	case 0:
		return nil
	case 1:
		return [][]byte{}
	case 2:
		return [][]byte{nil}
	case 3:
		return [][]byte{{}}
	case 4:
		return [][]byte{w.txBytes(2)}
	case 5:
		return [][]byte{w.txBytes(3), w.txBytes(3)}
	case 6:
		if w.rng.Intn(12) == 0 { // now and then a really large one (100 KB)
			b := make([]byte, 100000)
			w.rng.Read(b)
			return [][]byte{b}
		}
		return [][]byte{w.txBytes(5)}
	default:
		l := [][]byte{}
		for i, n := 0, 2+w.rng.Intn(5); i < n; i++ {
			l = append(l, w.txBytes(w.rng.Intn(5)))
		}
		return l
	}
}

var itxShapeNames = []string{"nil", "empty", "one", "many", "HOSTILE"}

// an internal transaction about key k, signed by k (Event.Verify checks these signatures)
func (w *world) itx(k int, strShape int) hg.InternalTransaction {
	p := *w.anyPeer(w.rng, k, fmt.Sprintf("addr%d:%d", k, w.rng.Intn(9999)), w.strOf(strShape))
	var t hg.InternalTransaction
	if w.rng.Intn(3) == 0 {
		t = hg.NewInternalTransactionLeave(p)
	} else {
		t = hg.NewInternalTransactionJoin(p)
	}
	t.Sign(w.privs[k])
	w.a.G(t.Signature)
	return t
}

// itxs returns the list and the worst string shape used in it
func (w *world) itxs(shape int) ([]hg.InternalTransaction, int) {
	switch shape {
	case 0:
		return nil, 0
	case 1:
		return []hg.InternalTransaction{}, 0
	case 2:
		return []hg.InternalTransaction{w.itx(nValidators+w.rng.Intn(nKeys-nValidators), 1+w.rng.Intn(7))}, 0
	case 3:
		l := []hg.InternalTransaction{}
		for i, n := 0, 2+w.rng.Intn(6); i < n; i++ {
			l = append(l, w.itx(w.rng.Intn(nKeys), w.rng.Intn(8)))
		}
		return l, 0
	default:
		s := strBadUTF8 + w.rng.Intn(2)
		return []hg.InternalTransaction{w.itx(w.rng.Intn(nKeys), 1), w.itx(w.rng.Intn(nKeys), s)}, s
	}
}

var bsShapeNames = []string{"nil", "empty", "one", "many", "FOREIGN", "NILVAL", "BADSTR", "UNDECODABLE"}

func (w *world) bsig(validator []byte, sigShape int) hg.BlockSignature {
	var sig string
	if sigShape < 0 {
		h := make([]byte, 32)
		w.rng.Read(h)
		r, s, _ := keys.Sign(w.privs[w.rng.Intn(nKeys)], h)
		sig = w.a.G(keys.EncodeSignature(r, s))
	} else {
		sig = w.strOf(sigShape)
	}
	return hg.BlockSignature{Validator: validator, Index: w.rng.Intn(50), Signature: sig}
}

// bsigs returns the list, whether every validator equals the creator, and the worst string shape
func (w *world) bsigs(shape int, creator int) ([]hg.BlockSignature, bool, int) {
	me := w.pubs[creator]
	switch shape {
	case 0:
		return nil, true, 0
	case 1:
		return []hg.BlockSignature{}, true, 0
	case 2:
		return []hg.BlockSignature{w.bsig(me, -1)}, true, 0
	case 3:
		l := []hg.BlockSignature{}
		for i, n := 0, 2+w.rng.Intn(8); i < n; i++ {
			l = append(l, w.bsig(me, -1))
		}
		return l, true, 0
	case 4:
		return []hg.BlockSignature{w.bsig(me, -1), w.bsig(w.pubs[(creator+1)%nKeys], -1)}, false, 0
	case 5:
		if w.rng.Intn(2) == 0 {
			return []hg.BlockSignature{w.bsig(nil, -1)}, false, 0
		}
		return []hg.BlockSignature{w.bsig([]byte{}, -1)}, false, 0
	case 6:
		s := strBadUTF8 + w.rng.Intn(2)
		return []hg.BlockSignature{w.bsig(me, s)}, true, s
	default:
		// valid text that keys.DecodeSignature does not accept (refused by Event.Verify since bc8842f)
		return []hg.BlockSignature{w.bsig(me, -1), w.bsig(me, w.rng.Intn(8))}, true, 0
	}
}

func (w *world) timestamp() int64 {
	switch w.rng.Intn(7) {
	case 0:
		return 0
	case 1:
		return -1
	case 2:
		return math.MaxInt64
	case 3:
		return math.MinInt64
	case 4:
		return 1 << 53
	default:
		return 1500000000 + int64(w.rng.Intn(1e9))
	}
}

// evShape is one point of the event shape product.
type evShape struct {
	tx, itx, bs int
}

func (s evShape) String() string {
	return txShapeNames[s.tx] + "/" + itxShapeNames[s.itx] + "/" + bsShapeNames[s.bs]
}

// hostile: outside the property's domain (a correct node never produces it)
func (s evShape) hostile() bool { return s.itx == 4 || s.bs >= 4 }

var evProduct []evShape

func init() {
	for tx := range txShapeNames {
		for itx := 0; itx < 4; itx++ {
			for bs := 0; bs < 4; bs++ {
				evProduct = append(evProduct, evShape{tx, itx, bs})
			}
		}
	}
	// hostile shapes (each needs something specific; not multiplied out)
	for _, h := range []evShape{{4, 4, 0}, {0, 4, 2}, {1, 0, 4}, {5, 2, 4}, {0, 0, 5}, {7, 3, 5}, {1, 1, 6}, {4, 2, 6}, {0, 0, 7}, {5, 3, 7}} {
		evProduct = append(evProduct, h)
	}
}
