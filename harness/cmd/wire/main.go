// Command wire: encoding identity (C15).  Events, blocks and frames over the full shape product are
// pushed through the REAL conversions of /repo and compared before/after; every case is also
// replayed by runner/wiredrv.ml on the extracted Coq model (V.Model.Wire).
//
//	C15 W setwire <storeA> | <event>       => cid opcid spi opi | ERR <cls>     Hashgraph.SetWireInfo
//	C15 W towire <event>                   => <wevent>                          Event.ToWire
//	C15 W read <path> <storeB> | <event>   => <event> h<0|1> v<0|1> | ERR <cls> ToWire, transport, Hashgraph.ReadWireInfo
//	     path: mem (pointer hand-over, InmemTransport) | json (encoding/json of a SyncResponse)
//	           | tcps (SyncResponse through a real TCP NetworkTransport) | tcpe (EagerSyncRequest, TCP)
//	C15 W readw <path> <storeB> | <wevent> => <event> | ERR <cls>               tampered wire events (error classes, wrong parents)
//	C15 D <path> <event>                   => <event> h v                       path: db (MarshalDB/UnmarshalDB) | badger
//	C15 I <path> <itx>                     => <itx> h v                         path: json | tcpj (JoinRequest through TCP)
//	C15 B <path> <block> v<k>/<n>          => <block> b<0|1> h<0|1> v<k>/<n>    path: marshal | badger | tcp | mem
//	C15 F <path> <frame>                   => <frame> h<0|1> | HANG0 | HANG1 | ERR   path: marshal (ugorji) | badger | tcp | mem
//	C15 C <frame> | <frame>                => same<0|1> | HANG                  same content, maps filled in another order
//	Z rewire <path> ...                    (oracle only) events received in a frame, Reset, served in wire form again
//	V C15 <class> <detail>                 oracle violation        Z stat / Z shape ... statistics
//
// store tokens: list<(int(id) bytes(key))> list<(int(id) int(index) str(hash))> list<(str(hash) bytes(creator) int(index))>
// h: Hex() unchanged; v: Verify() after the conversion; b: Body.Hash() unchanged; v<k>/<n>: signatures that verify.
// HANG0 / HANG1: Frame.Hash of the original / of the converted frame did not return within the deadline (child process).
// Replays of the findings on real node cores: wire -replay ufffd-join | rewire (replay.go).
package main

import (
	"bufio"
	"bytes"
	"encoding/json"
	"flag"
	"fmt"
	"io"
	"os"
	"os/exec"
	"reflect"
	"sort"
	"strings"
	"time"
	"unicode/utf8"

	"github.com/mosaicnetworks/babble/src/common"
	"github.com/mosaicnetworks/babble/src/crypto/keys"
	hg "github.com/mosaicnetworks/babble/src/hashgraph"
	bnet "github.com/mosaicnetworks/babble/src/net"
	"github.com/mosaicnetworks/babble/src/peers"
	"github.com/sirupsen/logrus"
)

var (
	out   *bufio.Writer
	quiet *logrus.Entry
	nViol int
	seed  int64
	only  string
)

func die(format string, a ...interface{}) {
	out.Flush()
	fmt.Fprintf(os.Stderr, "wire harness: "+format+"\n", a...)
	os.Exit(2)
}

func violation(class, detail string) {
	nViol++
	fmt.Fprintf(out, "V C15 %s %s\n", class, detail)
}

// ---------------------------------------------------------------------------------------------
// transports

type links struct {
	t1, t2   *bnet.NetworkTransport
	m1, m2   *bnet.InmemTransport
	addr2    string
	maddr2   string
	sync     *bnet.SyncResponse
	ff       *bnet.FastForwardResponse
	gotEager *bnet.EagerSyncRequest
	gotJoin  *bnet.JoinRequest
}

func (l *links) serve(ch <-chan bnet.RPC) {
	for rpc := range ch {
		switch cmd := rpc.Command.(type) {
		case *bnet.SyncRequest:
			rpc.Respond(l.sync, nil)
		case *bnet.EagerSyncRequest:
			l.gotEager = cmd
			rpc.Respond(&bnet.EagerSyncResponse{FromID: 2, Success: true}, nil)
		case *bnet.FastForwardRequest:
			rpc.Respond(l.ff, nil)
		case *bnet.JoinRequest:
			l.gotJoin = cmd
			rpc.Respond(&bnet.JoinResponse{FromID: 2, Accepted: true}, nil)
		}
	}
}

func newLinks() *links {
	l := &links{}
	var err error
	l.t1, err = bnet.NewTCPTransport("127.0.0.1:0", "", 2, 10*time.Second, 10*time.Second, quiet)
	if err != nil {
		die("tcp transport: %v", err)
	}
	l.t2, err = bnet.NewTCPTransport("127.0.0.1:0", "", 2, 10*time.Second, 10*time.Second, quiet)
	if err != nil {
		die("tcp transport: %v", err)
	}
	go l.t1.Listen()
	go l.t2.Listen()
	l.addr2 = l.t2.LocalAddr()
	go l.serve(l.t2.Consumer())
	var a1 string
	a1, l.m1 = bnet.NewInmemTransport("")
	l.maddr2, l.m2 = bnet.NewInmemTransport("")
	l.m1.Connect(l.maddr2, l.m2)
	l.m2.Connect(a1, l.m1)
	go l.serve(l.m2.Consumer())
	return l
}

func (l *links) close() {
	l.t1.Close()
	l.t2.Close()
}

// wire events through a path
func (l *links) sendWire(path string, wes []hg.WireEvent) ([]hg.WireEvent, error) {
	switch path {
	case "mem":
		l.sync = &bnet.SyncResponse{FromID: 2, Events: wes, Known: map[uint32]int{1: 2}}
		var resp bnet.SyncResponse
		if err := l.m1.Sync(l.maddr2, &bnet.SyncRequest{FromID: 1}, &resp); err != nil {
			return nil, err
		}
		return resp.Events, nil
	case "json":
		b, err := json.Marshal(&bnet.SyncResponse{FromID: 2, Events: wes})
		if err != nil {
			return nil, err
		}
		var resp bnet.SyncResponse
		if err := json.Unmarshal(b, &resp); err != nil {
			return nil, err
		}
		return resp.Events, nil
	case "tcps":
		l.sync = &bnet.SyncResponse{FromID: 2, Events: wes, Known: map[uint32]int{1: 2}}
		var resp bnet.SyncResponse
		if err := l.t1.Sync(l.addr2, &bnet.SyncRequest{FromID: 1, Known: map[uint32]int{7: 1}, SyncLimit: 10}, &resp); err != nil {
			return nil, err
		}
		return resp.Events, nil
	case "tcpe":
		var resp bnet.EagerSyncResponse
		l.gotEager = nil
		if err := l.t1.EagerSync(l.addr2, &bnet.EagerSyncRequest{FromID: 1, Events: wes}, &resp); err != nil {
			return nil, err
		}
		return l.gotEager.Events, nil
	}
	return nil, fmt.Errorf("unknown path")
}

func (l *links) sendFF(path string, b *hg.Block, f *hg.Frame) (*hg.Block, *hg.Frame, error) {
	l.ff = &bnet.FastForwardResponse{FromID: 2, Block: *b, Frame: *f, Snapshot: []byte("snap")}
	var resp bnet.FastForwardResponse
	var err error
	if path == "tcp" {
		err = l.t1.FastForward(l.addr2, &bnet.FastForwardRequest{FromID: 1}, &resp)
	} else {
		err = l.m1.FastForward(l.maddr2, &bnet.FastForwardRequest{FromID: 1}, &resp)
	}
	if err != nil {
		return nil, nil, err
	}
	return &resp.Block, &resp.Frame, nil
}

// ---------------------------------------------------------------------------------------------
// observation helpers

func safeVerify(e *hg.Event) (ok bool) {
	defer func() {
		if r := recover(); r != nil {
			ok = false
		}
	}()
	ok, _ = e.Verify()
	return ok
}

// ---- text validation (lands in /repo with common.EncodableString; detected by reflection so that
// the harness builds before and after) ----

// frameValidator: (present, accepts)
func frameValidator(f *hg.Frame) (bool, bool) {
	m := reflect.ValueOf(f).MethodByName("ValidateText")
	if !m.IsValid() || m.Type().NumIn() != 0 || m.Type().NumOut() != 1 {
		return false, true
	}
	r := m.Call(nil)[0]
	switch r.Kind() {
	case reflect.Bool:
		return true, r.Bool()
	case reflect.Interface, reflect.Ptr:
		return true, r.IsNil()
	}
	return true, false
}

func validatorPresent() bool {
	p, _ := frameValidator(&hg.Frame{})
	return p
}

// textLine prints a C15 T case: the implementation's verdict on the text of an object
func (w *world) textLine(kind string, print func(t *tw), verdict bool) {
	if !validatorPresent() {
		w.stats["text-validator-absent"]++
		return
	}
	t := &tw{a: w.a}
	t.tok("C15 T " + kind)
	print(t)
	t.tok("=>")
	if verdict {
		t.tok("ok")
	} else {
		t.tok("bad")
	}
	fmt.Fprintln(out, t.String())
	w.stats["text:"+kind+":"+map[bool]string{true: "ok", false: "bad"}[verdict]]++
}

func safeItxVerify(t *hg.InternalTransaction) (ok bool) {
	defer func() {
		if r := recover(); r != nil {
			ok = false
		}
	}()
	ok, _ = t.Verify()
	return ok
}

func safeBlockVerify(b *hg.Block, s hg.BlockSignature) (ok bool) {
	defer func() {
		if r := recover(); r != nil {
			ok = false
		}
	}()
	ok, _ = b.Verify(s)
	return ok
}

func freshHex(e *hg.Event) string {
	h, err := e.Body.Hash()
	if err != nil {
		return "ERR"
	}
	return common.EncodeToString(h)
}

func peerStrings(p *peers.Peer, f func(string)) {
	f(p.NetAddr)
	f(p.PubKeyHex)
	f(p.Moniker)
}

func eventStrings(e *hg.Event, f func(string)) {
	f(e.Signature)
	for _, p := range e.Body.Parents {
		f(p)
	}
	for i := range e.Body.InternalTransactions {
		t := &e.Body.InternalTransactions[i]
		f(t.Signature)
		peerStrings(&t.Body.Peer, f)
	}
	for _, b := range e.Body.BlockSignatures {
		f(b.Signature)
	}
}

func stringsOK(visit func(func(string))) (valid bool, noFFFD bool) {
	valid, noFFFD = true, true
	visit(func(s string) {
		if !utf8.ValidString(s) {
			valid = false
		}
		if hasUFFFD(s) {
			noFFFD = false
		}
	})
	return
}

func validatorsAreCreator(e *hg.Event) bool {
	for _, b := range e.Body.BlockSignatures {
		if b.Validator == nil || !bytes.Equal(b.Validator, e.Body.Creator) {
			return false
		}
	}
	return true
}

// ---- field-level content oracle: which string of which field changed (with both values) ----

func peerDiff(where string, a, b *peers.Peer) string {
	switch {
	case a.PubKeyHex != b.PubKeyHex:
		return fmt.Sprintf("PubKeyHex %s before=%q after=%q", where, a.PubKeyHex, b.PubKeyHex)
	case a.NetAddr != b.NetAddr:
		return fmt.Sprintf("NetAddr %s before=%q after=%q", where, a.NetAddr, b.NetAddr)
	case a.Moniker != b.Moniker:
		return fmt.Sprintf("Moniker %s before=%q after=%q", where, a.Moniker, b.Moniker)
	}
	return ""
}

func itxsDiff(where string, a, b []hg.InternalTransaction) string {
	if len(a) != len(b) {
		return fmt.Sprintf("InternalTransactions %s len before=%d after=%d", where, len(a), len(b))
	}
	for i := range a {
		if d := peerDiff(fmt.Sprintf("%s.InternalTransactions[%d].Body.Peer", where, i), &a[i].Body.Peer, &b[i].Body.Peer); d != "" {
			return d
		}
		if a[i].Signature != b[i].Signature {
			return fmt.Sprintf("Signature %s.InternalTransactions[%d] before=%q after=%q", where, i, a[i].Signature, b[i].Signature)
		}
	}
	return ""
}

func peerListDiff(where string, a, b []*peers.Peer) string {
	if len(a) != len(b) || (a == nil) != (b == nil) {
		return fmt.Sprintf("Peers %s len before=%d after=%d", where, len(a), len(b))
	}
	for i := range a {
		if (a[i] == nil) != (b[i] == nil) {
			return fmt.Sprintf("Peers %s[%d] nil-ness", where, i)
		}
		if a[i] != nil {
			if d := peerDiff(fmt.Sprintf("%s[%d]", where, i), a[i], b[i]); d != "" {
				return d
			}
		}
	}
	return ""
}

func keySetDiff(where string, a, b []string) string {
	sort.Strings(a)
	sort.Strings(b)
	if len(a) != len(b) {
		return fmt.Sprintf("MapKey %s len before=%d after=%d", where, len(a), len(b))
	}
	for i := range a {
		if a[i] != b[i] {
			return fmt.Sprintf("MapKey %s before=%q after=%q", where, a[i], b[i])
		}
	}
	return ""
}

func eventDiff(a, b *hg.Event) string {
	if d := itxsDiff("Event.Body", a.Body.InternalTransactions, b.Body.InternalTransactions); d != "" {
		return d
	}
	if a.Signature != b.Signature {
		return fmt.Sprintf("Signature Event before=%q after=%q", a.Signature, b.Signature)
	}
	if !reflect.DeepEqual(a.Body.Parents, b.Body.Parents) {
		return fmt.Sprintf("Parents Event before=%q after=%q", a.Body.Parents, b.Body.Parents)
	}
	return ""
}

// contentChanged reports `V C15 content-changed:<Field> <path> <where> before=.. after=..`
func contentChanged(path, tag, d string) {
	if d == "" {
		return
	}
	field := strings.SplitN(d, " ", 2)
	violation("content-changed:"+field[0], path+" "+tag+" "+field[1])
}

func payloadSame(a, b *hg.Event) bool {
	return reflect.DeepEqual(a.Body.Transactions, b.Body.Transactions) &&
		reflect.DeepEqual(a.Body.InternalTransactions, b.Body.InternalTransactions) &&
		reflect.DeepEqual(a.Body.BlockSignatures, b.Body.BlockSignatures) &&
		a.Body.Timestamp == b.Body.Timestamp && a.Body.Index == b.Body.Index
}

func errClass(err error) string {
	m := err.Error()
	switch {
	case strings.HasPrefix(m, "Creator"):
		return "creator-not-found"
	case strings.HasPrefix(m, "Participant "):
		return "opcreator-not-found"
	case strings.HasPrefix(m, "OtherParent"):
		return "otherparent-not-found"
	default:
		return "selfparent-not-found"
	}
}

// ---------------------------------------------------------------------------------------------
// DAG scenario

type scen struct {
	w         *world
	l         *links
	A, B, C   *hg.Hashgraph
	cstore    *hg.BadgerStore
	dir       string
	heads     [nValidators]string
	next      [nValidators]int
	events    []*hg.Event // inserted in A (and B, C), in order
	byHex     map[string]*hg.Event
	consensus bool
	cache     int
	blocks    []*hg.Block
}

func (w *world) newScen(l *links, consensus bool, cache int) *scen {
	s := &scen{w: w, l: l, byHex: map[string]*hg.Event{}, consensus: consensus, cache: cache}
	mk := func(store hg.Store, collect bool) *hg.Hashgraph {
		h := hg.NewHashgraph(store, func(b *hg.Block) error {
			if collect {
				s.blocks = append(s.blocks, b)
			}
			return nil
		}, quiet)
		if err := h.Init(peers.NewPeerSet(w.validators())); err != nil {
			die("init: %v", err)
		}
		return h
	}
	s.A = mk(hg.NewInmemStore(10000), true)
	s.B = mk(hg.NewInmemStore(10000), false)
	dir, err := os.MkdirTemp("", "verif-wire-")
	if err != nil {
		die("tmp: %v", err)
	}
	s.dir = dir
	s.cstore, err = hg.NewBadgerStore(10000, dir, false, quiet)
	if err != nil {
		die("badger: %v", err)
	}
	s.C = mk(s.cstore, false)
	return s
}

func (s *scen) close() {
	s.cstore.Close()
	os.RemoveAll(s.dir)
}

// store tokens for a Hashgraph: repertoire, the participant events asked for, the events asked for
func (s *scen) storeTokens(t *tw, h *hg.Hashgraph, pe [][2]int, evs []string) {
	rep := h.Store.RepertoireByID()
	ids := []int{}
	for id := range rep {
		ids = append(ids, int(id))
	}
	sort.Ints(ids)
	t.hdr(false, len(ids))
	for _, id := range ids {
		t.int(id)
		t.bytes(rep[uint32(id)].PubKeyBytes())
	}
	type peRes struct {
		id, idx int
		hash    string
	}
	found := []peRes{}
	seen := map[[2]int]bool{}
	for _, q := range pe {
		if seen[q] || q[1] < 0 {
			continue
		}
		seen[q] = true
		p, ok := rep[uint32(q[0])]
		if !ok {
			continue
		}
		if hash, err := h.Store.ParticipantEvent(p.PubKeyString(), q[1]); err == nil {
			found = append(found, peRes{q[0], q[1], hash})
		}
	}
	t.hdr(false, len(found))
	for _, f := range found {
		t.int(f.id)
		t.int(f.idx)
		t.str(f.hash)
	}
	fe := []*hg.Event{}
	seenE := map[string]bool{}
	for _, x := range evs {
		if x == "" || seenE[x] {
			continue
		}
		seenE[x] = true
		if ev, err := h.Store.GetEvent(x); err == nil {
			fe = append(fe, ev)
		}
	}
	t.hdr(false, len(fe))
	for _, ev := range fe {
		t.str(ev.Hex())
		t.bytes(ev.Body.Creator)
		t.int(ev.Index())
	}
}

func (s *scen) regEvent(e *hg.Event) {
	s.w.a.S(e.Hex())
	s.w.a.G(e.Signature)
}

// makeEvent builds and signs an event of the given shape on top of the current DAG.
func (s *scen) makeEvent(creator int, sp, op string, sh evShape) (*hg.Event, int) {
	w := s.w
	itxs, bad1 := w.itxs(sh.itx)
	bsigs, _, bad2 := w.bsigs(sh.bs, creator)
	e := hg.NewEvent(w.txs(sh.tx), itxs, bsigs, []string{sp, op}, w.pubs[creator], s.next[creator])
	e.Body.Timestamp = w.timestamp()
	if err := e.Sign(w.privs[creator]); err != nil {
		die("sign: %v", err)
	}
	s.regEvent(e)
	bad := bad1
	if bad2 > bad {
		bad = bad2
	}
	return e, bad
}

var wirePaths = []string{"mem", "json", "tcps", "tcpe"}

// readCase pushes the wire event through a path and reads it on hashgraph h; prints the case line.
func (s *scen) readCase(path string, h *hg.Hashgraph, orig *hg.Event, we hg.WireEvent, tag string) *hg.Event {
	t := &tw{a: s.w.a}
	if orig != nil {
		t.tok("C15 W read " + path)
	} else {
		t.tok("C15 W readw " + path)
	}
	s.storeTokens(t, h, [][2]int{{int(we.Body.CreatorID), we.Body.SelfParentIndex}, {int(we.Body.OtherParentCreatorID), we.Body.OtherParentIndex}}, nil)
	t.tok("|")
	verBefore := false
	if orig != nil {
		t.event(orig)
		verBefore = safeVerify(orig)
		t.tok(fmt.Sprintf("v%d", b2i(verBefore)))
	} else {
		t.wevent(&we)
	}
	t.tok("=>")
	got, err := s.l.sendWire(path, []hg.WireEvent{we})
	if err != nil || len(got) != 1 {
		die("transport %s: %v", path, err)
	}
	ev, err := h.ReadWireInfo(got[0])
	s.w.stats["read:"+path]++
	if err != nil {
		t.tok("ERR " + errClass(err))
		fmt.Fprintln(out, t.String())
		s.w.stats["read-err:"+errClass(err)]++
		if orig != nil && validatorsAreCreator(orig) {
			violation("wire-unreadable-through-"+path, fmt.Sprintf("%s err=%q", tag, err.Error()))
		}
		return nil
	}
	t.event(ev)
	if orig == nil {
		// tampered wire event: there is no original to compare with
		fmt.Fprintln(out, t.String())
		return ev
	}
	same := ev.Hex() == orig.Hex() && freshHex(ev) == orig.Hex()
	ver := safeVerify(ev)
	t.tok(fmt.Sprintf("h%d", b2i(same)))
	t.tok(fmt.Sprintf("v%d", b2i(ver)))
	fmt.Fprintln(out, t.String())
	// oracle
	valid, _ := stringsOK(func(f func(string)) { eventStrings(orig, f) })
	inDomain := validatorsAreCreator(orig) && (path == "mem" || valid)
	if inDomain {
		if !same {
			violation("hash-changed-through-wire-"+path, tag)
		}
		if ver != verBefore {
			violation("signature-invalid-after-wire-"+path, tag)
		}
		contentChanged("wire-"+path, tag, eventDiff(orig, ev))
		if !payloadSame(orig, ev) || ev.Signature != orig.Signature {
			violation("payload-changed", "wire-"+path+" "+tag)
		}
	} else {
		s.w.stats["out-of-domain:wire-"+path]++
		if !same {
			s.w.stats["out-of-domain-hash-changed:wire-"+path]++
		}
	}
	return ev
}

func (s *scen) dbCase(path string, ev *hg.Event, get func() (*hg.Event, error), tag string) {
	t := &tw{a: s.w.a}
	t.tok("C15 D " + path)
	t.event(ev)
	verBefore := safeVerify(ev)
	t.tok(fmt.Sprintf("v%d", b2i(verBefore)))
	t.tok("=>")
	before := ev.Hex()
	got, err := get()
	s.w.stats["db:"+path]++
	if err != nil {
		t.tok("ERR")
		fmt.Fprintln(out, t.String())
		violation("event-unreadable-through-"+path, tag+" "+err.Error())
		return
	}
	t.event(got)
	same := got.Hex() == before && freshHex(got) == before
	ver := safeVerify(got)
	t.tok(fmt.Sprintf("h%d", b2i(same)))
	t.tok(fmt.Sprintf("v%d", b2i(ver)))
	fmt.Fprintln(out, t.String())
	valid, _ := stringsOK(func(f func(string)) { eventStrings(ev, f) })
	if valid {
		if !same {
			violation("hash-changed-through-"+path, tag)
		}
		if ver != verBefore {
			violation("signature-invalid-after-"+path, tag)
		}
		contentChanged(path, tag, eventDiff(ev, got))
		if !payloadSame(ev, got) {
			violation("payload-changed", path+" "+tag)
		}
		// private fields that must survive the database form
		a1, a2, a3, a4 := ev.VerifWireInfo()
		b1, b2, b3, b4 := got.VerifWireInfo()
		if a1 != b1 || a2 != b2 || a3 != b3 || a4 != b4 || ev.VerifTopologicalIndex() != got.VerifTopologicalIndex() ||
			!reflect.DeepEqual(ev.VerifLastAncestors(), got.VerifLastAncestors()) ||
			!reflect.DeepEqual(ev.VerifFirstDescendants(), got.VerifFirstDescendants()) {
			violation("private-field-lost-through-"+path, tag)
		}
	} else {
		s.w.stats["out-of-domain:"+path]++
	}
}

// step creates one event of shape sh and runs every path on it.
func (s *scen) step(sh evShape) {
	w := s.w
	creator := w.rng.Intn(nValidators)
	sp := s.heads[creator]
	op := ""
	combo := w.rng.Intn(4)
	if combo >= 1 && len(s.events) > 0 { // other parent wanted (3 in 4 once there are events)
		for try := 0; try < 8 && op == ""; try++ {
			c := s.events[len(s.events)-1-w.rng.Intn(min(len(s.events), 6))]
			if !bytes.Equal(c.Body.Creator, w.pubs[creator]) {
				op = c.Hex()
			}
		}
	}
	if s.consensus && sp != "" && op == "" && len(s.events) > nValidators {
		return
	}
	e, _ := s.makeEvent(creator, sp, op, sh)
	w.textLine("event", func(t *tw) { t.event(e) }, safeVerify(e))
	pc := fmt.Sprintf("sp%d-op%d", b2i(sp != ""), b2i(op != ""))
	tag := sh.String() + "/" + pc
	w.shape[tag]++
	hostile := sh.hostile()

	// sender side: SetWireInfo (through InsertEvent for events that join the DAG).  An event that the
	// sender's own Event.Verify refuses (text validation) is a leaf probe like the hostile shapes.
	if !hostile && !safeVerify(e) {
		hostile = true
		w.stats["refused-by-verify:"+sh.String()]++
	}
	if hostile {
		if err := s.A.SetWireInfo(e); err != nil {
			die("SetWireInfo(hostile): %v", err)
		}
	} else {
		var err error
		if s.consensus {
			err = s.A.InsertEventAndRunConsensus(e, true)
		} else {
			err = s.A.InsertEvent(e, true)
		}
		if err != nil {
			die("A.InsertEvent %s: %v", tag, err)
		}
	}
	{
		t := &tw{a: w.a}
		t.tok("C15 W setwire")
		s.storeTokens(t, s.A, nil, []string{sp, op})
		t.tok("|")
		t.event(e)
		t.tok("=>")
		spi, opc, opi, cid := e.VerifWireInfo()
		t.u32(cid)
		t.u32(opc)
		t.int(spi)
		t.int(opi)
		fmt.Fprintln(out, t.String())
	}
	we := e.ToWire()
	{
		t := &tw{a: w.a}
		t.tok("C15 W towire")
		t.event(e)
		t.tok("=>")
		t.wevent(&we)
		fmt.Fprintln(out, t.String())
	}
	var viaMem *hg.Event
	for _, p := range wirePaths {
		ev := s.readCase(p, s.B, e, we, tag)
		if p == "mem" {
			viaMem = ev
		}
	}
	if !hostile {
		s.heads[creator] = e.Hex()
		s.next[creator]++
		s.events = append(s.events, e)
		s.byHex[e.Hex()] = e
	}
	if hostile || viaMem == nil {
		// leaf probe: the database form of the sender's own object
		if !hostile {
			return
		}
		s.dbCase("db", e, func() (*hg.Event, error) {
			b, err := e.MarshalDB()
			if err != nil {
				return nil, err
			}
			r := &hg.Event{}
			return r, r.UnmarshalDB(b)
		}, tag)
		return
	}
	// receiver B inserts what it read (it must know the parents of later events)
	if err := s.B.InsertEvent(viaMem, false); err != nil {
		violation("read-event-rejected", tag+" "+err.Error())
		return
	}
	// database form: B's object, with the consensus fields set as DivideRounds / DecideRoundReceived would
	if w.rng.Intn(4) != 0 {
		viaMem.SetRound(w.rng.Intn(20))
	}
	if w.rng.Intn(4) != 0 {
		viaMem.SetLamportTimestamp(w.rng.Intn(100))
	}
	if w.rng.Intn(2) == 0 {
		viaMem.SetRoundReceived(w.rng.Intn(20))
	}
	s.dbCase("db", viaMem, func() (*hg.Event, error) {
		b, err := viaMem.MarshalDB()
		if err != nil {
			return nil, err
		}
		r := &hg.Event{}
		return r, r.UnmarshalDB(b)
	}, tag)

	// badger: C reads the wire event (TCP), inserts, updates; then the DB-level read
	got, err := s.l.sendWire("tcps", []hg.WireEvent{we})
	if err != nil {
		die("tcps: %v", err)
	}
	cev, err := s.C.ReadWireInfo(got[0])
	if err != nil {
		violation("wire-unreadable-through-tcps", tag+" (badger node) "+err.Error())
		return
	}
	if err := s.C.InsertEvent(cev, false); err != nil {
		violation("read-event-rejected", tag+" (badger node) "+err.Error())
		return
	}
	if w.rng.Intn(2) == 0 {
		cev.SetRound(w.rng.Intn(20))
		cev.SetLamportTimestamp(w.rng.Intn(100))
		if err := s.cstore.SetEvent(cev); err != nil {
			die("badger SetEvent update: %v", err)
		}
	}
	s.dbCase("badger", cev, func() (*hg.Event, error) { return s.cstore.VerifDBGetEvent(cev.Hex()) }, tag)
}

// tampered wire events: error classes and wrong parents (negative cases)
func (s *scen) tamper() {
	if len(s.events) < 3 {
		return
	}
	w := s.w
	e := s.events[len(s.events)-1-w.rng.Intn(min(len(s.events), 5))]
	we := e.ToWire()
	kind := w.rng.Intn(6)
	switch kind {
	case 0:
		we.Body.CreatorID = 12345
	case 1:
		we.Body.OtherParentCreatorID = 54321
		if we.Body.OtherParentIndex < 0 {
			we.Body.OtherParentIndex = 0
		}
	case 2:
		we.Body.SelfParentIndex = 1000 + w.rng.Intn(10)
	case 3:
		we.Body.OtherParentIndex = 2000
		if we.Body.OtherParentCreatorID == 0 {
			we.Body.OtherParentCreatorID = we.Body.CreatorID
		}
	case 4:
		if we.Body.SelfParentIndex > 0 {
			we.Body.SelfParentIndex-- // an older self-parent: readable, another hash
		} else {
			we.Body.SelfParentIndex = -1
		}
	default:
		we.Body.OtherParentIndex = -1 // drops the other parent
	}
	w.stats[fmt.Sprintf("tamper:%d", kind)]++
	s.readCase([]string{"mem", "json"}[w.rng.Intn(2)], s.B, nil, we, "tamper")
}

// finish: every event must still be readable (and identical) from the badger node after eviction
func (s *scen) finish() {
	if err := s.cstore.Close(); err != nil {
		die("badger close: %v", err)
	}
	st, err := hg.NewBadgerStore(s.cache, s.dir, false, quiet)
	if err != nil {
		die("badger reopen: %v", err)
	}
	s.cstore = st
	for _, e := range s.events {
		got, err := s.cstore.GetEvent(e.Hex())
		s.w.stats["badger-getevent-after-reopen"]++
		if err != nil {
			violation("event-unreadable-through-badger", "GetEvent after reopen: "+err.Error())
			continue
		}
		if got == e {
			die("GetEvent after reopen returned the sender's pointer")
		}
		if got.Hex() != e.Hex() || freshHex(got) != e.Hex() {
			violation("hash-changed-through-badger", "GetEvent after reopen")
		}
		if !safeVerify(got) {
			violation("signature-invalid-after-badger", "GetEvent after reopen")
		}
		contentChanged("badger-reopen", "GetEvent", eventDiff(e, got))
		if !payloadSame(e, got) {
			violation("payload-changed", "badger GetEvent after reopen")
		}
	}
}

// ---------------------------------------------------------------------------------------------
// internal transactions on their own (JoinRequest)

func (w *world) itxCases(l *links, n int) {
	for i := 0; i < n; i++ {
		shape := i % len(strShapeNames)
		it := w.itx(w.rng.Intn(nKeys), shape)
		w.textLine("itx", func(t *tw) { t.itx(&it) }, safeItxVerify(&it))
		for _, path := range []string{"json", "tcpj"} {
			t := &tw{a: w.a}
			t.tok("C15 I " + path)
			t.itx(&it)
			verBefore := safeItxVerify(&it)
			t.tok(fmt.Sprintf("v%d", b2i(verBefore)))
			t.tok("=>")
			var got hg.InternalTransaction
			if path == "json" {
				b, err := it.Marshal()
				if err != nil {
					die("itx marshal: %v", err)
				}
				if err := got.Unmarshal(b); err != nil {
					die("itx unmarshal: %v", err)
				}
			} else {
				var resp bnet.JoinResponse
				l.gotJoin = nil
				if err := l.t1.Join(l.addr2, &bnet.JoinRequest{InternalTransaction: it}, &resp); err != nil {
					die("join rpc: %v", err)
				}
				got = l.gotJoin.InternalTransaction
			}
			t.itx(&got)
			same := got.HashString() == it.HashString()
			ver := safeItxVerify(&got)
			t.tok(fmt.Sprintf("h%d", b2i(same)))
			t.tok(fmt.Sprintf("v%d", b2i(ver)))
			fmt.Fprintln(out, t.String())
			w.stats["itx:"+path]++
			valid, _ := stringsOK(func(f func(string)) { f(it.Signature); peerStrings(&it.Body.Peer, f) })
			if valid {
				if !same {
					violation("hash-changed-through-itx-"+path, strShapeNames[shape])
				}
				if ver != verBefore {
					violation("signature-invalid-after-itx-"+path, strShapeNames[shape])
				}
				contentChanged("itx-"+path, strShapeNames[shape], peerDiff("InternalTransaction.Body.Peer", &it.Body.Peer, &got.Body.Peer))
			} else {
				w.stats["out-of-domain:itx-"+path]++
			}
		}
	}
}

func min(a, b int) int {
	if a < b {
		return a
	}
	return b
}

// ---------------------------------------------------------------------------------------------

func main() {
	flag.Int64Var(&seed, "seed", 1, "seed")
	scens := flag.Int("scens", 6, "DAG scenarios (no consensus)")
	steps := flag.Int("steps", 60, "events per scenario")
	cscens := flag.Int("cscens", 2, "consensus scenarios (real blocks and frames)")
	nsyn := flag.Int("syn", 120, "synthetic blocks / frames")
	nrisky := flag.Int("risky", 8, "risky frames (child processes)")
	thorough := flag.Bool("thorough", false, "thorough tier sizes")
	flag.StringVar(&only, "only", "", "internal: run one risky case in this (child) process")
	replay := flag.String("replay", "", "replay a finding on real node cores: ufffd-join | rewire")
	flag.Parse()
	if *thorough {
		*scens, *steps, *cscens, *nsyn, *nrisky = 100, 90, 24, 3000, 16
	}
	out = bufio.NewWriterSize(os.Stdout, 1<<20)
	defer out.Flush()
	lg := logrus.New()
	lg.Out = io.Discard
	lg.Level = logrus.PanicLevel
	quiet = logrus.NewEntry(lg)

	if only != "" {
		// child process: it reports on os.Stdout directly; case lines and atom definitions are dropped
		out = bufio.NewWriter(io.Discard)
	}
	w := newWorld(seed)
	if only == "join:ff" {
		w.ffRun()
		return
	}
	if strings.HasPrefix(only, "join:") {
		w.joinRun(only[5:])
		return
	}
	if only != "" {
		w.childCase(only)
		return
	}
	l := newLinks()
	defer l.close()
	if *replay != "" {
		switch *replay {
		case "ufffd-join":
			w.replayJoin(l)
		case "rewire":
			w.replayRewire(l)
		default:
			die("unknown replay %q", *replay)
		}
		fmt.Fprintf(out, "Z total violations %d\n", nViol)
		return
	}

	t0 := time.Now()
	lap := func(what string) {
		if os.Getenv("WIRE_TIMING") != "" {
			fmt.Fprintf(os.Stderr, "%-12s %.1fs\n", what, time.Since(t0).Seconds())
		}
		t0 = time.Now()
	}
	k := 0
	for sc := 0; sc < *scens; sc++ {
		s := w.newScen(l, false, []int{2, 3, 5, 50}[sc%4])
		for i := 0; i < *steps; i++ {
			s.step(evProduct[k%len(evProduct)])
			k++
			if i%7 == 6 {
				s.tamper()
			}
		}
		s.finish()
		s.close()
	}
	lap("dag")
	w.itxCases(l, 40)
	lap("itx")
	for sc := 0; sc < *cscens; sc++ {
		s := w.newScen(l, true, 1000)
		for i := 0; i < 140; i++ {
			sh := evProduct[w.rng.Intn(len(evProduct))]
			if sh.hostile() {
				sh = evProduct[0]
			}
			s.step(sh)
		}
		s.realBlocksAndFrames()
		s.finish()
		s.close()
	}
	lap("consensus")
	w.syntheticCases(l, *nsyn)
	lap("synthetic")
	w.riskyCases(*nrisky)
	lap("risky")

	keysOf := func(m map[string]int) []string {
		ks := []string{}
		for k := range m {
			ks = append(ks, k)
		}
		sort.Strings(ks)
		return ks
	}
	for _, k := range keysOf(w.stats) {
		fmt.Fprintf(out, "Z stat %s %d\n", k, w.stats[k])
	}
	for _, k := range keysOf(w.shape) {
		fmt.Fprintf(out, "Z shape %s %d\n", k, w.shape[k])
	}
	fmt.Fprintf(out, "Z total violations %d\n", nViol)
}

var _ = keys.Sign
var _ = exec.Command
