package main

// Replays of the two findings on real node cores (node.VerifCore = the unexported node.core).
//
//   wire -replay ufffd-join   F1: a JoinRequest whose moniker is "�" (valid UTF-8) reaches consensus;
//                             every core then spins for ever inside Frame.Hash (child process, deadline)
//   wire -replay rewire       F2: a node that fast-forwarded over the TCP transport serves frame events
//                             in wire form; the puller cannot read them

import (
	"bufio"
	"fmt"
	"math/rand"
	"os"
	"os/exec"
	"strings"
	"time"

	hg "github.com/mosaicnetworks/babble/src/hashgraph"
	"github.com/mosaicnetworks/babble/src/node"
	"github.com/mosaicnetworks/babble/src/peers"
	"github.com/mosaicnetworks/babble/src/proxy"
)

type rcore struct {
	c      *node.VerifCore
	blocks int
	state  []byte
}

func (w *world) newCores(n int) []*rcore {
	ps := []*peers.Peer{}
	for i := 0; i < n; i++ {
		ps = append(ps, w.peer(i, fmt.Sprintf("m%d", i)))
	}
	cores := []*rcore{}
	for i := 0; i < n; i++ {
		rc := &rcore{}
		commit := func(b hg.Block) (proxy.CommitResponse, error) {
			rc.blocks++
			receipts := []hg.InternalTransactionReceipt{}
			for _, it := range b.InternalTransactions() {
				receipts = append(receipts, it.AsAccepted())
			}
			return proxy.CommitResponse{StateHash: []byte(fmt.Sprintf("state%d", b.Index())), InternalTransactionReceipts: receipts}, nil
		}
		mk := func() *peers.PeerSet {
			l := []*peers.Peer{}
			for _, p := range ps {
				l = append(l, peers.NewPeer(p.PubKeyHex, p.NetAddr, p.Moniker))
			}
			return peers.NewPeerSet(l)
		}
		rc.c = node.VerifNewCore(node.NewValidator(w.privs[i], fmt.Sprintf("m%d", i)), mk(), mk(), hg.NewInmemStore(10000), commit, false, quiet)
		rc.c.SetHeadAndSeq()
		cores = append(cores, rc)
	}
	return cores
}

// pull: `to` pulls from `from` (what node.pull / synchronizeCores do), through wire events
func pull(to, from *rcore, tx []byte, via func([]hg.WireEvent) []hg.WireEvent) error {
	known := to.c.KnownEvents()
	diff, err := from.c.EventDiff(known)
	if err != nil {
		return fmt.Errorf("eventDiff: %v", err)
	}
	wire, _ := from.c.ToWire(diff)
	if via != nil {
		wire = via(wire)
	}
	if tx != nil {
		to.c.AddTransactions([][]byte{tx})
	}
	if err := to.c.Sync(from.c.ValidatorID(), wire); err != nil {
		return fmt.Errorf("sync: %v", err)
	}
	return to.c.ProcessSigPool()
}

// joinRun (child process): three validators gossip; at step 10 a join request with the given moniker
func (w *world) joinRun(moniker string) {
	rng := rand.New(rand.NewSource(seed))
	cores := w.newCores(3)
	for step := 0; step < 400; step++ {
		if step == 10 {
			itx := hg.NewInternalTransactionJoin(*peers.NewPeer(w.phex[5], "joiner:1337", moniker))
			itx.Sign(w.privs[5])
			cores[0].c.AddInternalTransaction(itx)
		}
		a := rng.Intn(3)
		b := (a + 1 + rng.Intn(2)) % 3
		if err := pull(cores[a], cores[b], []byte(fmt.Sprintf("tx%d", step)), nil); err != nil {
			fmt.Printf("ERROR step=%d %v\n", step, err)
			os.Exit(0)
		}
		if step%5 == 0 {
			fmt.Printf("STEP %d blocks=%d,%d,%d\n", step, cores[0].blocks, cores[1].blocks, cores[2].blocks)
		}
	}
	fmt.Printf("DONE blocks=%d,%d,%d peers=%d\n", cores[0].blocks, cores[1].blocks, cores[2].blocks, cores[0].c.Validators().Len())
}

func (w *world) replayJoin() {
	exe, _ := os.Executable()
	for _, m := range []struct{ name, moniker string }{{"baseline", "joiner"}, {"ufffd", "�"}} {
		cmd := exec.Command(exe, "-seed", fmt.Sprint(seed), "-only", "join:"+m.name)
		pipe, _ := cmd.StdoutPipe()
		if err := cmd.Start(); err != nil {
			die("start: %v", err)
		}
		lines := make(chan string, 16)
		go func() {
			sc := bufio.NewScanner(pipe)
			for sc.Scan() {
				lines <- sc.Text()
			}
			close(lines)
		}()
		last, finished := "", false
		deadline := time.After(60 * time.Second)
	loop:
		for {
			select {
			case l, ok := <-lines:
				if !ok {
					break loop
				}
				last = l
				if strings.HasPrefix(l, "DONE") || strings.HasPrefix(l, "ERROR") {
					finished = true
				}
				deadline = time.After(10 * time.Second) // no progress line for 10 s = stuck
			case <-deadline:
				break loop
			}
		}
		cmd.Process.Kill()
		cmd.Wait()
		fmt.Fprintf(out, "Z replay ufffd-join %s moniker=%q finished=%v last=%q\n", m.name, m.moniker, finished, last)
		if m.name == "baseline" && !finished {
			die("baseline run did not finish: %s", last)
		}
		if m.name == "ufffd" && !finished {
			violation("frame-hash-hangs", fmt.Sprintf("join-request str:UFFFD: no progress for 10 s after %q (cores spin in Frame.Hash)", last))
		}
	}
}

// replayRewire: 7 validators; 5 keep gossiping, G stops early, D never took part and fast-forwards
// from A over the TCP transport; then G pulls from D.
func (w *world) replayRewire(l *links) {
	for _, path := range []string{"mem", "tcp"} {
		found := false
		for lag := 10; lag <= 200 && !found; lag += 5 {
			rng := rand.New(rand.NewSource(seed))
			cores := w.newCores(7)
			active := []int{0, 1, 2, 4, 5}
			const D, G = 3, 6
			gStop := 150
			step := 0
			gossip := func(set []int) {
				a := set[rng.Intn(len(set))]
				b := a
				for b == a {
					b = set[rng.Intn(len(set))]
				}
				if err := pull(cores[a], cores[b], []byte(fmt.Sprintf("tx%d", step)), nil); err != nil {
					die("gossip: %v", err)
				}
				step++
			}
			for step < gStop {
				gossip(append(active, G))
			}
			for step < gStop+lag {
				gossip(active)
			}
			block, frame, err := cores[0].c.GetAnchorBlockWithFrame()
			if err != nil {
				continue
			}
			rb, rf, err := l.sendFF(path, block, frame)
			if err != nil {
				die("ff transport: %v", err)
			}
			if err := cores[D].c.FastForward(rb, rf); err != nil {
				die("fast-forward (%s): %v", path, err)
			}
			// G pulls from D
			known := cores[G].c.KnownEvents()
			diff, err := cores[D].c.EventDiff(known)
			if err != nil || len(diff) == 0 {
				continue // G is too far behind (or ahead of) D's frame for this lag
			}
			wire, _ := cores[D].c.ToWire(diff)
			got, err := l.sendWire("tcps", wire)
			if err != nil {
				die("sync transport: %v", err)
			}
			serr := cores[G].c.Sync(cores[D].c.ValidatorID(), got)
			found = true
			fmt.Fprintf(out, "Z replay rewire ff-path=%s lag=%d frame-round=%d served-events=%d sync-error=%v\n", path, lag, frame.Round, len(diff), serr)
			if serr != nil {
				violation("wire-info-lost-through-frame-"+path, fmt.Sprintf("real cores: %d frame events cannot be converted to wire form and back: a node that fast-forwarded over %s serves events its peer cannot read: %v", len(diff), path, serr))
			}
		}
		if !found {
			fmt.Fprintf(out, "Z replay rewire ff-path=%s no lag in 10..200 made the fast-forwarded node serve frame events\n", path)
		}
	}
}
