package main

// Replays of the two findings on real node cores (node.VerifCore = the unexported node.core).
//
//   wire -replay ufffd-join   F1: a JoinRequest whose moniker is "�" (valid UTF-8) reaches consensus;
//                             every core then spins for ever inside Frame.Hash (child process, deadline)
//   wire -replay rewire       F2: a node that fast-forwarded over the TCP transport serves frame events
//                             in wire form; the puller cannot read them

import (
	"bufio"
	"fmt"
	"math/rand"
	"os"
	"os/exec"
	"strings"
	"time"

	hg "github.com/mosaicnetworks/babble/src/hashgraph"
	bnet "github.com/mosaicnetworks/babble/src/net"
	"github.com/mosaicnetworks/babble/src/node"
	"github.com/mosaicnetworks/babble/src/peers"
	"github.com/mosaicnetworks/babble/src/proxy"
)

type rcore struct {
	c      *node.VerifCore
	blocks int
	state  []byte
}

func (w *world) newCores(n int) []*rcore {
	ps := []*peers.Peer{}
	for i := 0; i < n; i++ {
		ps = append(ps, w.peer(i, fmt.Sprintf("m%d", i)))
	}
	cores := []*rcore{}
	for i := 0; i < n; i++ {
		rc := &rcore{}
		commit := func(b hg.Block) (proxy.CommitResponse, error) {
			rc.blocks++
			receipts := []hg.InternalTransactionReceipt{}
			for _, it := range b.InternalTransactions() {
				receipts = append(receipts, it.AsAccepted())
			}
			return proxy.CommitResponse{StateHash: []byte(fmt.Sprintf("state%d", b.Index())), InternalTransactionReceipts: receipts}, nil
		}
		mk := func() *peers.PeerSet {
			l := []*peers.Peer{}
			for _, p := range ps {
				l = append(l, peers.NewPeer(p.PubKeyHex, p.NetAddr, p.Moniker))
			}
			return peers.NewPeerSet(l)
		}
		rc.c = node.VerifNewCore(node.NewValidator(w.privs[i], fmt.Sprintf("m%d", i)), mk(), mk(), hg.NewInmemStore(10000), commit, false, quiet)
		rc.c.SetHeadAndSeq()
		cores = append(cores, rc)
	}
	return cores
}

// pull: `to` pulls from `from` (what node.pull / synchronizeCores do), through wire events
func pull(to, from *rcore, tx []byte, via func([]hg.WireEvent) []hg.WireEvent) error {
	known := to.c.KnownEvents()
	diff, err := from.c.EventDiff(known)
	if err != nil {
		return fmt.Errorf("eventDiff: %v", err)
	}
	wire, _ := from.c.ToWire(diff)
	if via != nil {
		wire = via(wire)
	}
	if tx != nil {
		to.c.AddTransactions([][]byte{tx})
	}
	if err := to.c.Sync(from.c.ValidatorID(), wire); err != nil {
		return fmt.Errorf("sync: %v", err)
	}
	return to.c.ProcessSigPool()
}

// join request variants: what the joiner passes to peers.NewPeer
var joinMonikers = map[string]string{
	"baseline":   "joiner",
	"ufffd":      "\ufffd",         // valid UTF-8, the code point the frame codec loops on
	"normalised": "bad\xffmoniker", // invalid byte: peers.NewPeer (b2c4118) turns it into U+FFFD
}

func (w *world) joinItx(kind string) hg.InternalTransaction {
	itx := hg.NewInternalTransactionJoin(*peers.NewPeer(w.phex[5], "joiner:1337", joinMonikers[kind]))
	itx.Sign(w.privs[5])
	return itx
}

// joinRun (child process): validators gossip; at step 10 core 0 puts the join request in its pool -
// as node.processJoinRequest does once its gate (InternalTransaction.Verify) has accepted it, or, for
// kind "hostile", as a validator that skips the gate.  Errors of single pulls are counted, not fatal.
func (w *world) joinRun(kind string) {
	rng := rand.New(rand.NewSource(seed))
	n, moniker := 3, kind
	if kind == "hostile" || kind == "hostile-bsig" {
		n, moniker = 4, "ufffd"
	}
	cores := w.newCores(n)
	errs := 0
	lastErr := ""
	blocks := func() string {
		b := []string{}
		for _, c := range cores {
			b = append(b, fmt.Sprint(c.blocks))
		}
		return strings.Join(b, ",")
	}
	for step := 0; step < 400; step++ {
		if step == 10 && kind != "hostile-bsig" {
			cores[0].c.AddInternalTransaction(w.joinItx(moniker))
		}
		a := rng.Intn(n)
		b := (a + 1 + rng.Intn(n-1)) % n
		if kind == "hostile-bsig" && step >= 10 {
			if step == 10 {
				// validator 0 hand-crafts its next event with a block signature string "\ufffd", signs it and
				// pushes it to validator 1; then it goes silent
				pull(cores[1], cores[0], nil, nil) // validator 1 knows validator 0's head
				e := hg.NewEvent(nil, nil, []hg.BlockSignature{{Validator: w.pubs[0], Index: 0, Signature: "\ufffd"}},
					[]string{cores[0].c.Head(), ""}, w.pubs[0], cores[0].c.Seq()+1)
				e.Sign(w.privs[0])
				// delivered as a normal sync from validator 0, so that validator 1 builds on it
				if err := cores[0].c.Hg().SetWireInfo(e); err != nil {
					die("crafted event wire info: %v", err)
				}
				cores[1].c.AddTransactions([][]byte{[]byte("tx-after-crafted")})
				if err := cores[1].c.Sync(cores[0].c.ValidatorID(), []hg.WireEvent{e.ToWire()}); err != nil {
					errs++
					lastErr = "crafted event: " + err.Error()
				}
				if _, err := cores[1].c.Hg().Store.GetEvent(e.Hex()); err == nil {
					fmt.Println("STEP crafted event admitted")
				} else {
					fmt.Println("STEP crafted event refused")
				}
			}
			a = 1 + rng.Intn(3)
			b = 1 + (a+rng.Intn(2))%3
		}
		if err := pull(cores[a], cores[b], []byte(fmt.Sprintf("tx%d", step)), nil); err != nil {
			errs++
			lastErr = err.Error()
		}
		if step%5 == 0 {
			fmt.Printf("STEP %d blocks=%s errors=%d\n", step, blocks(), errs)
		}
	}
	fmt.Printf("DONE blocks=%s peers=%d errors=%d last-error=%q\n", blocks(), cores[n-1].c.Validators().Len(), errs, lastErr)
}

// ffRun (child process): a node that never took part asks for a fast-forward and a hostile responder
// answers with the genuine anchor block and its frame in which one peer's moniker was replaced by
// U+FFFD (the peers hash only covers the keys, so the block's signatures still check out).
// core.fastForward must return an error; before bc8842f it never returned (frame.Hash()).
func (w *world) ffRun() {
	rng := rand.New(rand.NewSource(seed))
	cores := w.newCores(4)
	for step := 0; step < 250; step++ {
		a := rng.Intn(3)
		b := (a + 1 + rng.Intn(2)) % 3
		if err := pull(cores[a], cores[b], []byte(fmt.Sprintf("tx%d", step)), nil); err != nil {
			fmt.Printf("ERROR gossip %v\n", err)
			return
		}
	}
	block, frame, err := cores[0].c.GetAnchorBlockWithFrame()
	if err != nil {
		fmt.Printf("ERROR no anchor block %v\n", err)
		return
	}
	tampered := *frame
	tampered.Peers = append([]*peers.Peer{}, frame.Peers...)
	p0 := *frame.Peers[0]
	p0.Moniker = "\ufffd"
	tampered.Peers[0] = &p0
	fmt.Printf("STEP fast-forward block=%d round=%d\n", block.Index(), frame.Round)
	err = cores[3].c.FastForward(block, &tampered)
	fmt.Printf("DONE ff-error=%q\n", fmt.Sprint(err))
}

// runChild runs `wire -only join:<kind>`; finished=false when it printed nothing for 10 s
func runJoinChild(kind string) (finished bool, last string) {
	exe, _ := os.Executable()
	cmd := exec.Command(exe, "-seed", fmt.Sprint(seed), "-only", "join:"+kind)
	pipe, _ := cmd.StdoutPipe()
	if err := cmd.Start(); err != nil {
		die("start: %v", err)
	}
	lines := make(chan string, 16)
	go func() {
		sc := bufio.NewScanner(pipe)
		for sc.Scan() {
			lines <- sc.Text()
		}
		close(lines)
	}()
	deadline := time.After(60 * time.Second)
loop:
	for {
		select {
		case l, ok := <-lines:
			if !ok {
				break loop
			}
			last = l
			if strings.HasPrefix(l, "DONE") || strings.HasPrefix(l, "ERROR") {
				finished = true
			}
			deadline = time.After(5 * time.Second) // no progress line for 5 s = stuck
		case <-deadline:
			break loop
		}
	}
	cmd.Process.Kill()
	cmd.Wait()
	return
}

// replayJoin: F1 on real cores.
//  1. the request travels through the real TCP transport; the gate of node.processJoinRequest
//     (InternalTransaction.Verify on what arrived) is evaluated;
//  2. if the gate ACCEPTS, the request is dispatched to the cores: they must keep committing blocks;
//  3. a validator that skips the gate (kind "hostile"): the other validators must keep committing.
//
// Before the text validation lands in /repo, 2 and 3 end with every core spinning in Frame.Hash:
// `V C15 frame-hash-hangs ... str:UFFFD` (the known finding); afterwards the gate refuses and the
// honest cores reject the hostile validator's event.
func (w *world) replayJoin(l *links) {
	if fin, last := runJoinChild("baseline"); !fin {
		die("baseline run did not finish: %s", last)
	} else {
		fmt.Fprintf(out, "Z replay ufffd-join baseline moniker=%q %s\n", joinMonikers["baseline"], last)
	}
	for _, kind := range []string{"ufffd", "normalised"} {
		itx := w.joinItx(kind)
		var resp bnet.JoinResponse
		l.gotJoin = nil
		if err := l.t1.Join(l.addr2, &bnet.JoinRequest{InternalTransaction: itx}, &resp); err != nil {
			die("join rpc: %v", err)
		}
		arrived := l.gotJoin.InternalTransaction
		gate := safeItxVerify(&arrived)
		fmt.Fprintf(out, "Z replay ufffd-join %s moniker-given=%q moniker-arrived=%q gate-accepts=%v\n", kind, joinMonikers[kind], arrived.Body.Peer.Moniker, gate)
		w.stats["join-gate:"+kind+":"+map[bool]string{true: "accepted", false: "refused"}[gate]]++
		if !gate {
			continue
		}
		fin, last := runJoinChild(kind)
		fmt.Fprintf(out, "Z replay ufffd-join %s dispatched finished=%v last=%q\n", kind, fin, last)
		if !fin {
			violation("frame-hash-hangs", fmt.Sprintf("join-request %s str:UFFFD: accepted by the gate, then no progress for 5 s after %q (cores spin in Frame.Hash)", kind, last))
		}
	}
	if fin, last := runJoinChild("ff"); true {
		fmt.Fprintf(out, "Z replay ufffd-join fast-forward-response finished=%v last=%q\n", fin, last)
		if !fin {
			violation("frame-hash-hangs", fmt.Sprintf("fast-forward-response str:UFFFD: core.fastForward does not return after %q (Frame.Hash)", last))
		} else if !strings.HasPrefix(last, "DONE") || strings.Contains(last, `ff-error="<nil>"`) {
			violation("tampered-frame-accepted", "fast-forward-response str:UFFFD "+last)
		}
	}
	if fin, last := runJoinChild("hostile-bsig"); true {
		fmt.Fprintf(out, "Z replay ufffd-join hostile-validator-block-signature finished=%v last=%q\n", fin, last)
		if !fin {
			violation("frame-hash-hangs", fmt.Sprintf("hostile-validator block-signature str:UFFFD: no progress for 5 s after %q (cores spin in Frame.Hash)", last))
		}
	}
	fin, last := runJoinChild("hostile")
	fmt.Fprintf(out, "Z replay ufffd-join hostile-validator finished=%v last=%q\n", fin, last)
	if !fin {
		violation("frame-hash-hangs", fmt.Sprintf("hostile-validator str:UFFFD: a validator's own event carries the text; no progress for 5 s after %q (cores spin in Frame.Hash)", last))
	}
}

// replayRewire: 7 validators; 5 keep gossiping, G stops early, D never took part and fast-forwards
// from A over the TCP transport; then G pulls from D.
func (w *world) replayRewire(l *links) {
	for _, path := range []string{"mem", "tcp"} {
		found := false
		for lag := 10; lag <= 200 && !found; lag += 5 {
			rng := rand.New(rand.NewSource(seed))
			cores := w.newCores(7)
			active := []int{0, 1, 2, 4, 5}
			const D, G = 3, 6
			gStop := 150
			step := 0
			gossip := func(set []int) {
				a := set[rng.Intn(len(set))]
				b := a
				for b == a {
					b = set[rng.Intn(len(set))]
				}
				if err := pull(cores[a], cores[b], []byte(fmt.Sprintf("tx%d", step)), nil); err != nil {
					die("gossip: %v", err)
				}
				step++
			}
			for step < gStop {
				gossip(append(active, G))
			}
			for step < gStop+lag {
				gossip(active)
			}
			block, frame, err := cores[0].c.GetAnchorBlockWithFrame()
			if err != nil {
				continue
			}
			rb, rf, err := l.sendFF(path, block, frame)
			if err != nil {
				die("ff transport: %v", err)
			}
			if err := cores[D].c.FastForward(rb, rf); err != nil {
				die("fast-forward (%s): %v", path, err)
			}
			// G pulls from D
			known := cores[G].c.KnownEvents()
			diff, err := cores[D].c.EventDiff(known)
			if err != nil || len(diff) == 0 {
				continue // G is too far behind (or ahead of) D's frame for this lag
			}
			wire, _ := cores[D].c.ToWire(diff)
			got, err := l.sendWire("tcps", wire)
			if err != nil {
				die("sync transport: %v", err)
			}
			serr := cores[G].c.Sync(cores[D].c.ValidatorID(), got)
			found = true
			fmt.Fprintf(out, "Z replay rewire ff-path=%s lag=%d frame-round=%d served-events=%d sync-error=%v\n", path, lag, frame.Round, len(diff), serr)
			if serr != nil {
				violation("wire-info-lost-through-frame-"+path, fmt.Sprintf("real cores: %d frame events cannot be converted to wire form and back: a node that fast-forwarded over %s serves events its peer cannot read: %v", len(diff), path, serr))
			}
		}
		if !found {
			fmt.Fprintf(out, "Z replay rewire ff-path=%s no lag in 10..200 made the fast-forwarded node serve frame events\n", path)
		}
	}
}
