package main

// Canonical token grammar shared with runner/wiredrv.ml (every object is a flat,
// self-delimiting sequence of space separated tokens):
//
//   int      decimal                      optint   - | decimal
//   bytes    n (nil) | x<hex> (x = empty, non-nil) | k<ord> (atom: the public key bytes of key <ord>)
//   str      s<cp.cp...> (s = "") | h<ord> | g<ord> (atoms: abbreviations of strings defined by an earlier
//            line `C15 A h<ord> s<cp...>`; h: hashes, key hex strings and their spellings, g: signatures)
//            a code point is printed in decimal; an INVALID UTF-8 byte b is printed as -(b+1)
//   list<X>  N (nil slice / nil map) | L<k> X*k
//   peer     str(NetAddr) str(PubKeyHex) str(Moniker)
//   peerptr  - | P peer
//   itx      int(Type) peer str(Signature)
//   receipt  itx int(Accepted)
//   bsig     bytes(Validator) int(Index) str(Signature)
//   wbsig    int(Index) str(Signature)
//   coord    str(key) str(Hash) int(Index)           (maps are printed sorted by key)
//   event    list<bytes>(Transactions) list<itx> list<str>(Parents) bytes(Creator) int(Index) list<bsig> int(Timestamp)
//            int(creatorID) int(otherParentCreatorID) int(selfParentIndex) int(otherParentIndex)
//            str(Signature) int(topologicalIndex) optint(round) optint(lamport) optint(roundReceived)
//            list<coord>(lastAncestors) list<coord>(firstDescendants)
//   wevent   list<bytes> list<itx> list<wbsig> int(CreatorID) int(OtherParentCreatorID) int(Index)
//            int(SelfParentIndex) int(OtherParentIndex) int(Timestamp) str(Signature)
//   fevent   - | F coreptr int(Round) int(Lamport) int(Witness)        coreptr  - | E event
//   root     - | R list<fevent>
//   block    int(Index) int(RoundReceived) int(Timestamp) bytes(StateHash) bytes(FrameHash) bytes(PeersHash)
//            list<bytes> list<itx> list<receipt> list<(str str)>(Signatures)
//   frame    int(Round) list<peerptr> list<(str root)> list<fevent> list<(int list<peerptr>)> int(Timestamp)

import (
	"encoding/hex"
	"fmt"
	"sort"
	"strings"
	"unicode/utf8"

	hg "github.com/mosaicnetworks/babble/src/hashgraph"
	"github.com/mosaicnetworks/babble/src/peers"
)

type atoms struct {
	str   map[string]int
	sig   map[string]int
	bytes map[string]int
}

func newAtoms() *atoms {
	return &atoms{str: map[string]int{}, sig: map[string]int{}, bytes: map[string]int{}}
}

// Atoms are pure compression: when a string is registered, a definition line
//
//	C15 A h<n>|g<n> s<code points>
//
// is written, and the runner expands the atom to exactly that string (and compresses it again when it
// prints).  The model therefore sees the real strings (map-key order, DecodeSignature, ...).
func (a *atoms) define(tok string, s string) {
	if out != nil {
		t := &tw{a: &atoms{}}
		t.str(s)
		fmt.Fprintf(out, "C15 A %s %s\n", tok, t.String())
	}
}

// G registers a real signature string ("r|s" in base 36, as keys.EncodeSignature writes it)
func (a *atoms) G(s string) string {
	if s == "" {
		return s
	}
	if _, ok := a.str[s]; ok {
		return s
	}
	if _, ok := a.sig[s]; !ok {
		a.sig[s] = len(a.sig)
		a.define(fmt.Sprintf("g%d", a.sig[s]), s)
	}
	return s
}

// S registers a string that is used often (hash / key hex and its spellings) and returns it.
func (a *atoms) S(s string) string {
	if s == "" {
		return s
	}
	if _, ok := a.sig[s]; ok {
		return s
	}
	if _, ok := a.str[s]; !ok {
		a.str[s] = len(a.str)
		a.define(fmt.Sprintf("h%d", a.str[s]), s)
	}
	return s
}

func (a *atoms) B(b []byte) []byte {
	if _, ok := a.bytes[string(b)]; !ok {
		a.bytes[string(b)] = len(a.bytes)
	}
	return b
}

type tw struct {
	a  *atoms
	sb strings.Builder
}

func (t *tw) tok(s string) {
	if t.sb.Len() > 0 {
		t.sb.WriteByte(' ')
	}
	t.sb.WriteString(s)
}
func (t *tw) int(i int)      { t.tok(fmt.Sprint(i)) }
func (t *tw) i64(i int64)    { t.tok(fmt.Sprint(i)) }
func (t *tw) u32(i uint32)   { t.tok(fmt.Sprint(i)) }
func (t *tw) String() string { return t.sb.String() }

func (t *tw) optint(v int, ok bool) {
	if !ok {
		t.tok("-")
	} else {
		t.int(v)
	}
}

func (t *tw) bytes(b []byte) {
	if b == nil {
		t.tok("n")
		return
	}
	if o, ok := t.a.bytes[string(b)]; ok {
		t.tok(fmt.Sprintf("k%d", o))
		return
	}
	t.tok("x" + hex.EncodeToString(b))
}

func (t *tw) str(s string) {
	if o, ok := t.a.str[s]; ok && s != "" {
		t.tok(fmt.Sprintf("h%d", o))
		return
	}
	if o, ok := t.a.sig[s]; ok {
		t.tok(fmt.Sprintf("g%d", o))
		return
	}
	var sb strings.Builder
	sb.WriteByte('s')
	for i := 0; i < len(s); {
		r, size := utf8.DecodeRuneInString(s[i:])
		v := int(r)
		if r == utf8.RuneError && size == 1 {
			v = -(int(s[i]) + 1)
		}
		if i > 0 {
			sb.WriteByte('.')
		}
		fmt.Fprintf(&sb, "%d", v)
		i += size
	}
	t.tok(sb.String())
}

func (t *tw) hdr(isNil bool, n int) bool {
	if isNil {
		t.tok("N")
		return false
	}
	t.tok(fmt.Sprintf("L%d", n))
	return true
}

func (t *tw) txs(l [][]byte) {
	if t.hdr(l == nil, len(l)) {
		for _, b := range l {
			t.bytes(b)
		}
	}
}

func (t *tw) peer(p *peers.Peer) {
	t.str(p.NetAddr)
	t.str(p.PubKeyHex)
	t.str(p.Moniker)
}

func (t *tw) peerptr(p *peers.Peer) {
	if p == nil {
		t.tok("-")
		return
	}
	t.tok("P")
	t.peer(p)
}

func (t *tw) peerptrs(l []*peers.Peer) {
	if t.hdr(l == nil, len(l)) {
		for _, p := range l {
			t.peerptr(p)
		}
	}
}

func (t *tw) itx(i *hg.InternalTransaction) {
	t.int(int(i.Body.Type))
	t.peer(&i.Body.Peer)
	t.str(i.Signature)
}

func (t *tw) itxs(l []hg.InternalTransaction) {
	if t.hdr(l == nil, len(l)) {
		for i := range l {
			t.itx(&l[i])
		}
	}
}

func (t *tw) receipts(l []hg.InternalTransactionReceipt) {
	if t.hdr(l == nil, len(l)) {
		for i := range l {
			t.itx(&l[i].InternalTransaction)
			t.int(b2i(l[i].Accepted))
		}
	}
}

func (t *tw) bsigs(l []hg.BlockSignature) {
	if t.hdr(l == nil, len(l)) {
		for _, b := range l {
			t.bytes(b.Validator)
			t.int(b.Index)
			t.str(b.Signature)
		}
	}
}

func (t *tw) wbsigs(l []hg.WireBlockSignature) {
	if t.hdr(l == nil, len(l)) {
		for _, b := range l {
			t.int(b.Index)
			t.str(b.Signature)
		}
	}
}

func (t *tw) strs(l []string) {
	if t.hdr(l == nil, len(l)) {
		for _, s := range l {
			t.str(s)
		}
	}
}

func (t *tw) coords(m hg.CoordinatesMap) {
	if !t.hdr(m == nil, len(m)) {
		return
	}
	ks := make([]string, 0, len(m))
	for k := range m {
		ks = append(ks, k)
	}
	sort.Strings(ks)
	for _, k := range ks {
		t.str(k)
		t.str(m[k].Hash)
		t.int(m[k].Index)
	}
}

func (t *tw) event(e *hg.Event) {
	b := &e.Body
	t.txs(b.Transactions)
	t.itxs(b.InternalTransactions)
	t.strs(b.Parents)
	t.bytes(b.Creator)
	t.int(b.Index)
	t.bsigs(b.BlockSignatures)
	t.i64(b.Timestamp)
	spi, opc, opi, cid := e.VerifWireInfo()
	t.u32(cid)
	t.u32(opc)
	t.int(spi)
	t.int(opi)
	t.str(e.Signature)
	t.int(e.VerifTopologicalIndex())
	t.optint(e.VerifRound())
	t.optint(e.VerifLamport())
	t.optint(e.VerifRoundReceived())
	t.coords(e.VerifLastAncestors())
	t.coords(e.VerifFirstDescendants())
}

func (t *tw) wevent(we *hg.WireEvent) {
	b := &we.Body
	t.txs(b.Transactions)
	t.itxs(b.InternalTransactions)
	t.wbsigs(b.BlockSignatures)
	t.u32(b.CreatorID)
	t.u32(b.OtherParentCreatorID)
	t.int(b.Index)
	t.int(b.SelfParentIndex)
	t.int(b.OtherParentIndex)
	t.i64(b.Timestamp)
	t.str(we.Signature)
}

func (t *tw) fevent(fe *hg.FrameEvent) {
	if fe == nil {
		t.tok("-")
		return
	}
	t.tok("F")
	if fe.Core == nil {
		t.tok("-")
	} else {
		t.tok("E")
		t.event(fe.Core)
	}
	t.int(fe.Round)
	t.int(fe.LamportTimestamp)
	t.int(b2i(fe.Witness))
}

func (t *tw) fevents(l []*hg.FrameEvent) {
	if t.hdr(l == nil, len(l)) {
		for _, fe := range l {
			t.fevent(fe)
		}
	}
}

func (t *tw) root(r *hg.Root) {
	if r == nil {
		t.tok("-")
		return
	}
	t.tok("R")
	t.fevents(r.Events)
}

func (t *tw) block(b *hg.Block, sigOrder []string) {
	bb := &b.Body
	t.int(bb.Index)
	t.int(bb.RoundReceived)
	t.i64(bb.Timestamp)
	t.bytes(bb.StateHash)
	t.bytes(bb.FrameHash)
	t.bytes(bb.PeersHash)
	t.txs(bb.Transactions)
	t.itxs(bb.InternalTransactions)
	t.receipts(bb.InternalTransactionReceipts)
	if t.hdr(b.Signatures == nil, len(b.Signatures)) {
		ks := sigOrder
		if ks == nil {
			for k := range b.Signatures {
				ks = append(ks, k)
			}
			sort.Strings(ks)
		}
		for _, k := range ks {
			t.str(k)
			t.str(b.Signatures[k])
		}
	}
}

// frame prints a frame; rootOrder / psOrder give the insertion order of the two maps
// (nil: sorted by key, which is how results are printed).
func (t *tw) frame(f *hg.Frame, rootOrder []string, psOrder []int) {
	t.int(f.Round)
	t.peerptrs(f.Peers)
	if t.hdr(f.Roots == nil, len(f.Roots)) {
		ks := rootOrder
		if ks == nil {
			for k := range f.Roots {
				ks = append(ks, k)
			}
			sort.Strings(ks)
		}
		for _, k := range ks {
			t.str(k)
			t.root(f.Roots[k])
		}
	}
	t.fevents(f.Events)
	if t.hdr(f.PeerSets == nil, len(f.PeerSets)) {
		ks := psOrder
		if ks == nil {
			for k := range f.PeerSets {
				ks = append(ks, k)
			}
			sort.Ints(ks)
		}
		for _, k := range ks {
			t.int(k)
			t.peerptrs(f.PeerSets[k])
		}
	}
	t.i64(f.Timestamp)
}

func b2i(b bool) int {
	if b {
		return 1
	}
	return 0
}
