module verifharness

go 1.20

require (
	github.com/mosaicnetworks/babble v0.0.0
	github.com/sirupsen/logrus v1.2.0
)

require (
	github.com/AndreasBriese/bbloom v0.0.0-20190306092124-e2d15f34fcf9 // indirect
	github.com/btcsuite/btcd v0.0.0-20190523000118-16327141da8c // indirect
	github.com/dgraph-io/badger v1.6.0 // indirect
	github.com/dgryski/go-farm v0.0.0-20190423205320-6a90982ecee2 // indirect
	github.com/dustin/go-humanize v1.0.0 // indirect
	github.com/golang/protobuf v1.3.1 // indirect
	github.com/mattn/go-colorable v0.1.2 // indirect
	github.com/mattn/go-isatty v0.0.8 // indirect
	github.com/mgutz/ansi v0.0.0-20170206155736-9520e82c474b // indirect
	github.com/pion/datachannel v1.4.14 // indirect
	github.com/pion/dtls/v2 v2.0.0-rc.6 // indirect
	github.com/pion/ice v0.7.8 // indirect
	github.com/pion/logging v0.2.2 // indirect
	github.com/pion/mdns v0.0.4 // indirect
	github.com/pion/rtcp v1.2.1 // indirect
	github.com/pion/rtp v1.3.2 // indirect
	github.com/pion/sctp v1.7.4 // indirect
	github.com/pion/sdp/v2 v2.3.4 // indirect
	github.com/pion/srtp v1.2.7 // indirect
	github.com/pion/stun v0.3.3 // indirect
	github.com/pion/transport v0.8.10 // indirect
	github.com/pion/turn/v2 v2.0.2 // indirect
	github.com/pion/webrtc/v2 v2.2.0 // indirect
	github.com/pkg/errors v0.9.1 // indirect
	github.com/ugorji/go/codec v1.1.7 // indirect
	github.com/x-cray/logrus-prefixed-formatter v0.5.2 // indirect
	golang.org/x/crypto v0.0.0-20200128174031-69ecbb4d6d5d // indirect
	golang.org/x/net v0.0.0-20200226121028-0de0cce0169b // indirect
	golang.org/x/sys v0.0.0-20191120155948-bd437916bb0e // indirect
	golang.org/x/xerrors v0.0.0-20191204190536-9bdfabe68543 // indirect
)

replace github.com/mosaicnetworks/babble => /repo
