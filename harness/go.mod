module verifharness

go 1.20

require (
	github.com/mosaicnetworks/babble v0.0.0
	github.com/sirupsen/logrus v1.2.0
)

require (
	github.com/AndreasBriese/bbloom v0.0.0-20190306092124-e2d15f34fcf9 // indirect
	github.com/btcsuite/btcd v0.0.0-20190523000118-16327141da8c // indirect
	github.com/dgraph-io/badger v1.6.0 // indirect
	github.com/dgryski/go-farm v0.0.0-20190423205320-6a90982ecee2 // indirect
	github.com/dustin/go-humanize v1.0.0 // indirect
	github.com/golang/protobuf v1.3.1 // indirect
	github.com/pkg/errors v0.9.1 // indirect
	github.com/ugorji/go/codec v1.1.7 // indirect
	golang.org/x/crypto v0.0.0-20200128174031-69ecbb4d6d5d // indirect
	golang.org/x/net v0.0.0-20200226121028-0de0cce0169b // indirect
	golang.org/x/sys v0.0.0-20191120155948-bd437916bb0e // indirect
)

replace github.com/mosaicnetworks/babble => /repo
