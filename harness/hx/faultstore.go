package hx

import (
	"fmt"

	hg "github.com/mosaicnetworks/babble/src/hashgraph"
)

// FaultStore decorates a real Store: when armed, the n-th SetEvent of an event that is not yet
// stored fails (the write of a NEW event, i.e. the store write inside Hashgraph.InsertEvent).
type FaultStore struct {
	hg.Store
	FailNewEventIn int // 0 = disarmed; k = fail the k-th next new-event write
	Injected       int
	// FailPassWriteIn: k = fail the k-th next write of a consensus pass (SetFrame, SetBlock,
	// AddConsensusEvent: the writes of ProcessDecidedRounds); PassInjected counts them
	FailPassWriteIn int
	PassInjected    int
}

func (f *FaultStore) passFault() bool {
	if f.FailPassWriteIn > 0 {
		f.FailPassWriteIn--
		if f.FailPassWriteIn == 0 {
			f.PassInjected++
			return true
		}
	}
	return false
}

func (f *FaultStore) SetFrame(fr *hg.Frame) error {
	if f.passFault() {
		return fmt.Errorf("injected store failure (SetFrame)")
	}
	return f.Store.SetFrame(fr)
}

func (f *FaultStore) SetBlock(b *hg.Block) error {
	if f.passFault() {
		return fmt.Errorf("injected store failure (SetBlock)")
	}
	return f.Store.SetBlock(b)
}

func (f *FaultStore) AddConsensusEvent(e *hg.Event) error {
	if f.passFault() {
		return fmt.Errorf("injected store failure (AddConsensusEvent)")
	}
	return f.Store.AddConsensusEvent(e)
}

func (f *FaultStore) SetEvent(e *hg.Event) error {
	if f.FailNewEventIn > 0 {
		if _, err := f.Store.GetEvent(e.Hex()); err != nil {
			f.FailNewEventIn--
			if f.FailNewEventIn == 0 {
				f.Injected++
				return fmt.Errorf("injected store failure")
			}
		}
	}
	return f.Store.SetEvent(e)
}
