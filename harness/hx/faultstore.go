package hx

import (
	"fmt"

	hg "github.com/mosaicnetworks/babble/src/hashgraph"
)

// FaultStore decorates a real Store: when armed, the n-th SetEvent of an event that is not yet
// stored fails (the write of a NEW event, i.e. the store write inside Hashgraph.InsertEvent).
type FaultStore struct {
	hg.Store
	FailNewEventIn int // 0 = disarmed; k = fail the k-th next new-event write
	Injected       int
}

func (f *FaultStore) SetEvent(e *hg.Event) error {
	if f.FailNewEventIn > 0 {
		if _, err := f.Store.GetEvent(e.Hex()); err != nil {
			f.FailNewEventIn--
			if f.FailNewEventIn == 0 {
				f.Injected++
				return fmt.Errorf("injected store failure")
			}
		}
	}
	return f.Store.SetEvent(e)
}
