// Package hx: shared helpers of the /verif correspondence harness. It drives real
// babble cores (built from /repo with -tags verif) and prints (a) the inputs the
// Coq model needs and (b) canonicalised observations of the implementation.
package hx

import (
	"bufio"
	"crypto/ecdsa"
	"crypto/sha256"
	"fmt"
	"io"
	"math/big"
	"sort"
	"strings"

	"github.com/mosaicnetworks/babble/src/crypto/keys"
	hg "github.com/mosaicnetworks/babble/src/hashgraph"
	"github.com/mosaicnetworks/babble/src/node"
	"github.com/mosaicnetworks/babble/src/peers"
	"github.com/mosaicnetworks/babble/src/proxy"
	"github.com/sirupsen/logrus"
)

func QuietLogger() *logrus.Entry {
	l := logrus.New()
	l.Out = io.Discard
	l.Level = logrus.PanicLevel
	return logrus.NewEntry(l)
}

// World holds the global numbering of keys, events, bodies, internal transactions.
type World struct {
	Out        *bufio.Writer
	Privs      []*ecdsa.PrivateKey
	Peers      []*peers.Peer
	KeyOrd     map[string]int // upper-case pub key hex -> ordinal
	Eids       map[string]int // event hex -> eid
	EvByEid    []*hg.Event
	BodyOrd    map[string]int   // body hash hex -> ordinal
	Bodies     map[int][][]byte // block index -> known body hashes
	ItxOrd     map[string]int
	Refused    map[int]bool // itx ordinals the application refuses
	TxSerial   int
	Violations int
}

func NewWorld(out *bufio.Writer) *World {
	return &World{Out: out, KeyOrd: map[string]int{}, Eids: map[string]int{}, BodyOrd: map[string]int{},
		Bodies: map[int][][]byte{}, ItxOrd: map[string]int{}, Refused: map[int]bool{}}
}

// AddKey creates a new key pair / peer and returns its ordinal.
func (w *World) AddKey() int {
	k, _ := keys.GenerateECDSAKey()
	p := peers.NewPeer(keys.PublicKeyHex(&k.PublicKey), fmt.Sprintf("addr%d", len(w.Peers)), fmt.Sprintf("m%d", len(w.Peers)))
	ord := len(w.Peers)
	w.Privs = append(w.Privs, k)
	w.Peers = append(w.Peers, p)
	w.KeyOrd[p.PubKeyString()] = ord
	return ord
}

func (w *World) Ord(pubHex string) int {
	if o, ok := w.KeyOrd[strings.ToUpper(pubHex)]; ok {
		return o
	}
	return -1
}

func (w *World) Eid(hex string) int {
	if hex == "" {
		return -1
	}
	if id, ok := w.Eids[hex]; ok {
		return id
	}
	return -2
}

func (w *World) RegisterEvent(ev *hg.Event) int {
	h := ev.Hex()
	if id, ok := w.Eids[h]; ok {
		return id
	}
	id := len(w.EvByEid)
	w.Eids[h] = id
	w.EvByEid = append(w.EvByEid, ev)
	return id
}

func (w *World) ItxID(itx *hg.InternalTransaction) int {
	h := itx.HashString() + "|" + itx.Signature
	if id, ok := w.ItxOrd[h]; ok {
		return id
	}
	id := len(w.ItxOrd)
	w.ItxOrd[h] = id
	return id
}

func (w *World) BodyID(b *hg.Block) int {
	h, _ := b.Body.Hash()
	hx := fmt.Sprintf("%X", h)
	if id, ok := w.BodyOrd[hx]; ok {
		return id
	}
	id := len(w.BodyOrd)
	w.BodyOrd[hx] = id
	w.Bodies[b.Index()] = append(w.Bodies[b.Index()], h)
	return id
}

// SigOver finds which registered body of block bs.Index the signature verifies against.
func (w *World) SigOver(bs hg.BlockSignature) int {
	pub := keys.ToPublicKey(bs.Validator)
	r, s, err := keys.DecodeSignature(bs.Signature)
	if err != nil || r == nil || s == nil || pub == nil || pub.X == nil {
		return -2
	}
	for _, h := range w.Bodies[bs.Index] {
		if keys.Verify(pub, h, r, s) {
			return w.BodyOrd[fmt.Sprintf("%X", h)]
		}
	}
	return -2
}

func (w *World) Violation(prop, class, detail string) {
	w.Violations++
	fmt.Fprintf(w.Out, "V %s %s %s\n", prop, class, detail)
}

func b2i(b bool) int {
	if b {
		return 1
	}
	return 0
}

func optInt(v int, ok bool) string {
	if !ok {
		return "-"
	}
	return fmt.Sprint(v)
}

// SigR returns the R component of an event signature as a decimal string.
func SigR(sig string) string {
	r, _, err := keys.DecodeSignature(sig)
	if err != nil || r == nil {
		return "0"
	}
	return r.Text(10)
}

// NewTx makes a transaction with a fresh serial; content shapes vary.
func (w *World) NewTx(shape int) []byte {
	w.TxSerial++
	s := w.TxSerial
	switch shape % 4 {
	case 0:
		return []byte(fmt.Sprintf("%d", s))
	case 1:
		return []byte(fmt.Sprintf("%d\x00\xff\xfe binary", s))
	case 2:
		return []byte(fmt.Sprintf("%d %s", s, strings.Repeat("x", 100)))
	default:
		return []byte(fmt.Sprintf("%d;", s))
	}
}

// TxSerialOf recovers the serial of a transaction made by NewTx (-1 otherwise).
func TxSerialOf(tx []byte) int {
	n := 0
	i := 0
	for i < len(tx) && tx[i] >= '0' && tx[i] <= '9' {
		n = n*10 + int(tx[i]-'0')
		i++
	}
	if i == 0 {
		return -1
	}
	return n
}

// App is a deterministic application: state hash chains the transactions.
type App struct {
	// OnCommit, when set, is called at the end of every successful Commit callback with the
	// block as received and the resulting state hash (used by cmd/crash for its durable delivery log).
	OnCommit  func(block hg.Block, state []byte)
	W         *World
	State     []byte
	Delivered []hg.Block // as received by the callback (before state hash)
	NewIdx    []int
	FailNext  bool
	FailedIdx []int // indexes of the blocks whose commit the application failed (FailNext)
}

func (a *App) Commit(block hg.Block) (proxy.CommitResponse, error) {
	if a.FailNext {
		// the application fails once. The hashgraph has already stored the block and moves on to the next
		// index, so the attempted block is part of the node's chain: it is recorded like a delivery (it
		// keeps no state hash and no receipts) and its index is remembered in FailedIdx.
		a.FailNext = false
		a.FailedIdx = append(a.FailedIdx, block.Index())
		a.Delivered = append(a.Delivered, block)
		a.NewIdx = append(a.NewIdx, block.Index())
		return proxy.CommitResponse{}, fmt.Errorf("app failure")
	}
	h := sha256.New()
	h.Write(a.State)
	for _, tx := range block.Transactions() {
		h.Write(tx)
		h.Write([]byte{0})
	}
	a.State = h.Sum(nil)
	receipts := []hg.InternalTransactionReceipt{}
	for _, itx := range block.InternalTransactions() {
		it := itx
		if a.W.Refused[a.W.ItxID(&it)] {
			receipts = append(receipts, it.AsRefused())
		} else {
			receipts = append(receipts, it.AsAccepted())
		}
	}
	a.Delivered = append(a.Delivered, block)
	a.NewIdx = append(a.NewIdx, block.Index())
	if a.OnCommit != nil {
		a.OnCommit(block, a.State)
	}
	return proxy.CommitResponse{StateHash: a.State, InternalTransactionReceipts: receipts}, nil
}

// Node wraps one real core.
type Node struct {
	W             *World
	ID            int             // trace id
	Self          int             // key ordinal
	Core          *node.VerifCore // nil for a bare Hashgraph
	Hg            *hg.Hashgraph
	Store         hg.Store
	App           *App
	shadow        map[string]string
	known         map[int]int // creator ord -> last index dumped
	fdLen         map[int]int
	nDeliv        int
	Inserted      map[int]bool // eids successfully inserted in this node
	Silent        bool
	Faulty        bool // a store fault was injected: no longer compared with the model
	PassFaulty    bool // a write of a consensus pass failed
	WasReset      bool // fast-forwarded at some point
	Base          int  // index of Final[0] (anchor index + 1 after a fast-forward)
	PendingFF     bool // joiner waiting to fast-forward
	FFTries       int
	RoundDiverged bool        // C13 known root cause observed on this reset node
	Tracked       bool        // reset node whose Reset was replayed on the model (trace line R): still compared with it
	Final         []*hg.Block // delivered blocks as stored after commit (pointers into store at delivery time)
	FinalBody     []string    // canonical body strings at delivery time
	NoDump        bool        // the observables are not printed (a node that is not compared with the model and whose store reads are expensive or intrusive)
}

// NewNode creates a core over the given store with peer set `current` and genesis set `genesis`.
func (w *World) NewNode(id, self int, current, genesis []int, store hg.Store) *Node {
	mk := func(ords []int) *peers.PeerSet {
		ps := []*peers.Peer{}
		for _, o := range ords {
			p := w.Peers[o]
			ps = append(ps, peers.NewPeer(p.PubKeyHex, p.NetAddr, p.Moniker))
		}
		return peers.NewPeerSet(ps)
	}
	app := &App{W: w}
	nd := &Node{W: w, ID: id, Self: self, Store: store, App: app, shadow: map[string]string{}, known: map[int]int{}, fdLen: map[int]int{}}
	nd.Core = node.VerifNewCore(node.NewValidator(w.Privs[self], fmt.Sprintf("m%d", self)), mk(current), mk(genesis), store, app.Commit, false, QuietLogger())
	nd.Hg = nd.Core.Hg()
	fmt.Fprintf(w.Out, "N %d %d", id, self)
	for _, o := range genesis {
		fmt.Fprintf(w.Out, " %d:%d", w.Peers[o].ID(), o)
	}
	fmt.Fprintf(w.Out, "\n")
	return nd
}

// NewBareNode creates a Hashgraph (no core) whose commit callback only records the blocks.
func (w *World) NewBareNode(id int, genesis []int, store hg.Store) *Node {
	ps := []*peers.Peer{}
	for _, o := range genesis {
		p := w.Peers[o]
		ps = append(ps, peers.NewPeer(p.PubKeyHex, p.NetAddr, p.Moniker))
	}
	app := &App{W: w}
	nd := &Node{W: w, ID: id, Self: -1, Store: store, App: app, shadow: map[string]string{}, known: map[int]int{}, fdLen: map[int]int{}}
	nd.Hg = hg.NewHashgraph(store, func(b *hg.Block) error {
		app.Delivered = append(app.Delivered, *b)
		app.NewIdx = append(app.NewIdx, b.Index())
		return nil
	}, QuietLogger())
	nd.Hg.Init(peers.NewPeerSet(ps))
	fmt.Fprintf(w.Out, "N %d -1", id)
	for _, o := range genesis {
		fmt.Fprintf(w.Out, " %d:%d", w.Peers[o].ID(), o)
	}
	fmt.Fprintf(w.Out, "\n")
	return nd
}

// ResetKnown forgets the harness-side bookkeeping of inserted events after a fast-forward.
func (nd *Node) ResetKnown() {
	nd.known = map[int]int{}
	nd.Inserted = map[int]bool{}
	nd.fdLen = map[int]int{}
}

// ResetTracked: after a fast-forward that the model follows too (trace line R). The printed
// observables that a Reset wipes are forgotten (the delivered blocks and the transaction pool stay),
// the events now in the store (root and frame events) become the tracked events, and the known map is
// taken from the store so that only events inserted after the reset are printed as I lines.
func (nd *Node) ResetTracked(frameEvents []string) {
	nd.ResetKnown()
	for k := range nd.shadow {
		if !(strings.HasPrefix(k, "d") || k == "pl") {
			delete(nd.shadow, k)
		}
	}
	nd.Tracked = true
	for id, last := range nd.Store.KnownEvents() {
		if p, ok := nd.Store.RepertoireByID()[id]; ok {
			nd.known[nd.W.Ord(p.PubKeyHex)] = last
		}
	}
	for _, x := range frameEvents {
		if ev, err := nd.Store.GetEvent(x); err == nil {
			nd.NoteInserted(ev)
		}
	}
}

// BlockAt returns the delivered block with the given index, if this node delivered it.
func (nd *Node) BlockAt(index int) (*hg.Block, string, bool) {
	k := index - nd.Base
	if k < 0 || k >= len(nd.Final) {
		return nil, "", false
	}
	return nd.Final[k], nd.FinalBody[k], true
}

// NoteInserted records that ev was successfully inserted in this node.
func (nd *Node) NoteInserted(ev *hg.Event) {
	if nd.Inserted == nil {
		nd.Inserted = map[int]bool{}
	}
	nd.Inserted[nd.W.RegisterEvent(ev)] = true
}

func (nd *Node) bodyID(b *hg.Block) int {
	if nd.Core == nil {
		return -1
	}
	return nd.W.BodyID(b)
}

func (nd *Node) emit(key, val string) {
	if old, ok := nd.shadow[key]; ok && old == val {
		return
	}
	nd.shadow[key] = val
	fmt.Fprintf(nd.W.Out, "o %d %s %s\n", nd.ID, key, val)
}

func feStr(w *World, fe *hg.FrameEvent) string {
	return fmt.Sprintf("%d:%d:%d:%d", w.Eid(fe.Core.Hex()), fe.Round, fe.LamportTimestamp, b2i(fe.Witness))
}

func peersStr(w *World, ps []*peers.Peer) string {
	s := []string{}
	for _, p := range ps {
		s = append(s, fmt.Sprint(w.Ord(p.PubKeyHex)))
	}
	return strings.Join(s, ",")
}

// FrameDigest: canonical text of a frame.
func FrameDigest(w *World, f *hg.Frame) string {
	var sb strings.Builder
	fmt.Fprintf(&sb, "%d %d E", f.Round, f.Timestamp)
	for _, fe := range f.Events {
		sb.WriteString(" " + feStr(w, fe))
	}
	sb.WriteString(" ROOTS")
	ords := []int{}
	byOrd := map[int]*hg.Root{}
	for k, r := range f.Roots {
		o := w.Ord(k)
		ords = append(ords, o)
		byOrd[o] = r
	}
	sort.Ints(ords)
	for _, o := range ords {
		fmt.Fprintf(&sb, " c%d", o)
		for _, fe := range byOrd[o].Events {
			sb.WriteString(" " + feStr(w, fe))
		}
	}
	sb.WriteString(" PS")
	rs := []int{}
	for r := range f.PeerSets {
		rs = append(rs, r)
	}
	sort.Ints(rs)
	for _, r := range rs {
		fmt.Fprintf(&sb, " %d=%s", r, peersStr(w, f.PeerSets[r]))
	}
	fmt.Fprintf(&sb, " P %s", peersStr(w, f.Peers))
	return sb.String()
}

// BlockBodyStr: canonical text of a block body (without state hash bytes, which the body id covers).
func (nd *Node) BlockBodyStr(b *hg.Block, withFrame bool) string {
	w := nd.W
	var sb strings.Builder
	fmt.Fprintf(&sb, "%d %d %d %d T", b.Index(), b.RoundReceived(), b.Timestamp(), nd.bodyID(b))
	for _, tx := range b.Transactions() {
		fmt.Fprintf(&sb, " %d", TxSerialOf(tx))
	}
	sb.WriteString(" X")
	acc := map[int]int{}
	for _, r := range b.InternalTransactionReceipts() {
		it := r.InternalTransaction
		acc[w.ItxID(&it)] = b2i(r.Accepted)
	}
	for _, itx := range b.InternalTransactions() {
		it := itx
		id := w.ItxID(&it)
		a, ok := acc[id]
		if !ok {
			a = -1
		}
		fmt.Fprintf(&sb, " %d:%d", id, a)
	}
	if withFrame {
		f, err := nd.Store.GetFrame(b.RoundReceived())
		if err != nil {
			sb.WriteString(" F ?")
		} else {
			fh, _ := f.Hash()
			if fmt.Sprintf("%X", fh) != fmt.Sprintf("%X", b.FrameHash()) {
				w.Violation("C13", "frame-hash-mismatch", fmt.Sprintf("node=%d block=%d", nd.ID, b.Index()))
			}
			sb.WriteString(" F " + FrameDigest(w, f))
		}
	}
	return sb.String()
}

func triStr(t int) string {
	switch t {
	case 1:
		return "T"
	case 2:
		return "F"
	}
	return "U"
}

// CoordsStr: canonical text of a coordinates map.
func CoordsStr(w *World, m hg.CoordinatesMap) string { return coordsStr(w, m) }

func coordsStr(w *World, m hg.CoordinatesMap) string {
	type ent struct{ o, i, e int }
	l := []ent{}
	for k, c := range m {
		l = append(l, ent{w.Ord(k), c.Index, w.Eid(c.Hash)})
	}
	sort.Slice(l, func(i, j int) bool { return l[i].o < l[j].o })
	s := []string{}
	for _, e := range l {
		s = append(s, fmt.Sprintf("%d:%d:%d", e.o, e.i, e.e))
	}
	return strings.Join(s, " ")
}

// EventLine prints the model input for one event.
func (w *World) EventLine(ev *hg.Event) string {
	var sb strings.Builder
	id := w.RegisterEvent(ev)
	ok, _ := safeVerify(ev)
	fmt.Fprintf(&sb, "%d %d %d %d %d %d %d %s %d T %d", id, w.Ord(ev.Creator()), ev.Index(),
		w.Eid(ev.SelfParent()), w.Eid(ev.OtherParent()), ev.Timestamp(), b2i(hg.VerifMiddleBit(ev.Hex())), SigR(ev.Signature), b2i(ok),
		len(ev.Transactions()))
	for _, tx := range ev.Transactions() {
		fmt.Fprintf(&sb, " %d", TxSerialOf(tx))
	}
	fmt.Fprintf(&sb, " X %d", len(ev.InternalTransactions()))
	for _, itx := range ev.InternalTransactions() {
		it := itx
		vok, _ := it.Verify()
		p := it.Body.Peer
		id := w.ItxID(&it)
		fmt.Fprintf(&sb, " %d %d %d %d %d %d", id, b2i(it.Body.Type == hg.PEER_ADD), p.ID(), w.Ord(p.PubKeyHex), b2i(vok), b2i(!w.Refused[id]))
	}
	fmt.Fprintf(&sb, " S %d", len(ev.BlockSignatures()))
	for _, bs := range ev.BlockSignatures() {
		fmt.Fprintf(&sb, " %d %d %d", w.Ord(bs.ValidatorHex()), bs.Index, w.SigOver(bs))
	}
	return sb.String()
}

func safeVerify(ev *hg.Event) (ok bool, err error) {
	defer func() {
		if r := recover(); r != nil {
			ok = false
			err = fmt.Errorf("panic: %v", r)
		}
	}()
	return ev.Verify()
}

// AfterAction prints what happened in node nd since the last call: oracle body ids, newly
// inserted events (in insertion order), the ProcessSigPool marker, and changed observables.
func (nd *Node) AfterAction(sigPoolRan bool) { nd.AfterActionX(sigPoolRan, true) }

// AfterActionX: when detect is false the caller has already printed the I lines of this action.
func (nd *Node) AfterActionX(sigPoolRan bool, detect bool) {
	w := nd.W
	h := nd.Hg
	// 1. body ids of the blocks delivered during this action
	for _, idx := range nd.App.NewIdx {
		b, err := nd.Store.GetBlock(idx)
		if err != nil {
			w.Violation("C02", "delivered-block-not-in-store", fmt.Sprintf("node=%d index=%d", nd.ID, idx))
			continue
		}
		if nd.Core != nil {
			fmt.Fprintf(w.Out, "B %d %d\n", nd.ID, w.BodyID(b))
		}
		nd.Final = append(nd.Final, b)
		nd.FinalBody = append(nd.FinalBody, nd.BlockBodyStr(b, false))
	}
	nd.App.NewIdx = nil
	// 2. new events in topological order
	newEvs := []*hg.Event{}
	for id, last := range nd.Store.KnownEvents() {
		p, ok := nd.Store.RepertoireByID()[id]
		if !ok || !detect || (nd.WasReset && !nd.Tracked) {
			continue
		}
		o := w.Ord(p.PubKeyHex)
		prev, seen := nd.known[o]
		if !seen {
			prev = -1
		}
		if last > prev {
			hs, err := nd.Store.ParticipantEvents(p.PubKeyString(), prev)
			if err != nil {
				w.Violation("C16", "participant-events-error", fmt.Sprintf("node=%d %v", nd.ID, err))
				continue
			}
			for _, x := range hs {
				ev, err := nd.Store.GetEvent(x)
				if err == nil {
					newEvs = append(newEvs, ev)
				}
			}
			nd.known[o] = last
		}
	}
	sort.Slice(newEvs, func(i, j int) bool { return newEvs[i].VerifTopologicalIndex() < newEvs[j].VerifTopologicalIndex() })
	for _, ev := range newEvs {
		nd.NoteInserted(ev)
		if detect {
			fmt.Fprintf(w.Out, "I %d %s => ok\n", nd.ID, w.EventLine(ev))
		}
	}
	if sigPoolRan {
		fmt.Fprintf(w.Out, "G %d\n", nd.ID)
	}
	// 3. observables
	if nd.NoDump {
		fmt.Fprintf(w.Out, "K %d\n", nd.ID)
		return
	}
	evs := []int{}
	for id := range nd.Inserted {
		evs = append(evs, id)
	}
	sort.Ints(evs)
	for _, id := range evs {
		ev, err := nd.Store.GetEvent(w.EvByEid[id].Hex())
		if err != nil {
			continue
		}
		r, rok := ev.VerifRound()
		lt, lok := ev.VerifLamport()
		rr, rrok := ev.VerifRoundReceived()
		nd.emit(fmt.Sprintf("e%d", id), fmt.Sprintf("%s %s %s", optInt(r, rok), optInt(lt, lok), optInt(rr, rrok)))
		fd := ev.VerifFirstDescendants()
		if l, ok := nd.fdLen[id]; !ok || l != len(fd) {
			nd.fdLen[id] = len(fd)
			nd.emit(fmt.Sprintf("c%d", id), fmt.Sprintf("LA %s FD %s", coordsStr(w, ev.VerifLastAncestors()), coordsStr(w, fd)))
		}
	}
	for r := 0; r <= nd.Store.LastRound(); r++ {
		ri, err := nd.Store.GetRound(r)
		if err != nil {
			continue
		}
		type ce struct {
			e, w, f int
		}
		l := []ce{}
		for x, re := range ri.CreatedEvents {
			l = append(l, ce{w.Eid(x), b2i(re.Witness), int(re.Famous)})
		}
		sort.Slice(l, func(i, j int) bool { return l[i].e < l[j].e })
		var sb strings.Builder
		fmt.Fprintf(&sb, "%d C", b2i(ri.VerifDecided()))
		for _, c := range l {
			fmt.Fprintf(&sb, " %d:%d:%s", c.e, c.w, triStr(c.f))
		}
		sb.WriteString(" R")
		for _, x := range ri.ReceivedEvents {
			fmt.Fprintf(&sb, " %d", w.Eid(x))
		}
		nd.emit(fmt.Sprintf("r%d", r), sb.String())
	}
	for ; nd.nDeliv < len(nd.Final); nd.nDeliv++ {
		nd.emit(fmt.Sprintf("d%d", nd.nDeliv), nd.BlockBodyStr(nd.Final[nd.nDeliv], true))
	}
	for i := 0; i <= nd.Store.LastBlockIndex(); i++ {
		b, err := nd.Store.GetBlock(i)
		if err != nil {
			continue
		}
		type se struct{ v, o int }
		l := []se{}
		for _, bs := range b.GetSignatures() {
			l = append(l, se{w.Ord(bs.ValidatorHex()), w.SigOver(bs)})
		}
		sort.Slice(l, func(i, j int) bool { return l[i].v < l[j].v })
		var sb strings.Builder
		fmt.Fprintf(&sb, "%d", b2i(len(b.StateHash()) > 0))
		for _, s := range l {
			fmt.Fprintf(&sb, " %d:%d", s.v, s.o)
		}
		nd.emit(fmt.Sprintf("g%d", i), sb.String())
	}
	{
		var sb strings.Builder
		lcr, lcok := 0, false
		if h.LastConsensusRound != nil {
			lcr, lcok = *h.LastConsensusRound, true
		}
		an, aok := 0, false
		if h.AnchorBlock != nil {
			an, aok = *h.AnchorBlock, true
		}
		fmt.Fprintf(&sb, "%d %d %s P", len(h.UndeterminedEvents), nd.Store.LastRound(), optInt(lcr, lcok))
		for _, pr := range h.PendingRounds.GetOrderedPendingRounds() {
			fmt.Fprintf(&sb, " %d:%d", pr.Index, b2i(pr.Decided))
		}
		fmt.Fprintf(&sb, " A %s T %d L %d B %d", optInt(an, aok), h.VerifTopologicalIndex(), h.PendingLoadedEvents, nd.Store.LastBlockIndex())
		nd.emit("st", sb.String())
	}
	{
		s := []string{}
		for _, x := range h.UndeterminedEvents {
			s = append(s, fmt.Sprint(w.Eid(x)))
		}
		nd.emit("u", strings.Join(s, " "))
	}
	{
		type ke struct{ o, i int }
		l := []ke{}
		for id, last := range nd.Store.KnownEvents() {
			if p, ok := nd.Store.RepertoireByID()[id]; ok {
				l = append(l, ke{w.Ord(p.PubKeyHex), last})
			}
		}
		sort.Slice(l, func(i, j int) bool { return l[i].o < l[j].o })
		s := []string{}
		for _, k := range l {
			s = append(s, fmt.Sprintf("%d:%d", k.o, k.i))
		}
		nd.emit("kn", strings.Join(s, " "))
	}
	{
		all, _ := nd.Store.GetAllPeerSets()
		rs := []int{}
		for r := range all {
			rs = append(rs, r)
		}
		sort.Ints(rs)
		s := []string{}
		for _, r := range rs {
			s = append(s, fmt.Sprintf("%d=%s", r, peersStr(w, all[r])))
		}
		nd.emit("ps", strings.Join(s, " "))
	}
	if nd.Core != nil {
		s := []string{}
		for _, tx := range nd.Core.TransactionPool() {
			s = append(s, fmt.Sprint(TxSerialOf(tx)))
		}
		nd.emit("pl", strings.Join(s, " "))
	}
	fmt.Fprintf(w.Out, "K %d\n", nd.ID)
}

var _ = big.NewInt
