#!/bin/sh
# Extract the model and build the native runner.  Run from /verif/runner.
set -e
cd "$(dirname "$0")"
rm -rf _build
mkdir -p _build ../build
cd _build
timeout 600 coqc -R ../../coq V ../../coq/Extract/Extract.v > extract.log 2>&1 || { cat extract.log; exit 1; }
cp ../zutil.ml ../hgdrv.ml ../resetdrv.ml ../storedrv.ml ../crashdrv.ml ../gatedrv.ml ../proxydrv.ml ../ffdrv.ml ../wiredrv.ml ../hostiledrv.ml ../handlers.ml ../main.ml .
files=$(ocamlfind ocamldep -sort *.mli *.ml)
ocamlfind ocamlopt -O3 -w -a $files -o ../../build/runner 2>/dev/null || \
ocamlfind ocamlopt -w -a $files -o ../../build/runner
