(* Driver for the crash-recovery traces written by harness/cmd/crash (trusted glue, C11).
   One write log per Badger lineage of the current history:
     CN <lin> <self>                                      new lineage (empty log)
     CW <lin> P <round> <pid:ord>..                       dbSetPeerSet
     CW <lin> E <topo> <event line>                       dbSetEvents of an event printed for the first time
     CW <lin> U <topo> <eid>                              dbSetEvents of an event printed before
     CW <lin> B <idx> <rr> <bodyid> <committed> <v:o>..   dbSetBlock
     CW <lin> R|F|X <round>                               dbSetRound / dbSetFrame / Reset
     CC <id> <lin> <k> <self> <pid:ord>.. | <body ids> => <head> <seq> <ok>
   CC: the extracted Recovery.bootstrap_cur (Bootstrap as it stands, fix d90db55 included) is run on the database denoted by the first k entries of
   the log; head/seq/ok are compared here and the resulting model state is installed as trace node
   <id> of Hgdrv, so that the o/K lines that follow compare every observable of the recovered
   implementation node with the model. *)
open Datatypes
open BinNums
open Zutil
open HgImpl
open Recovery

let logs : (string, wr list ref) Hashtbl.t = Hashtbl.create 8      (* newest first *)
let evtab : (string, event) Hashtbl.t = Hashtbl.create 1024
let last_cc : string option ref = ref None       (* the previous recovery's trace node: dropped when the next one is installed *)

let zs = string_of_z
let z = z_of_string
let map = Stdlib.List.map

let peer_of t = match Stdlib.String.split_on_char ':' t with
  | [pid; ord] -> { Quorum.pid = z pid; pkey = z ord }
  | _ -> failwith "peer"

let dummy_frame : frame = { f_round = z "0"; f_peers = []; f_roots = []; f_events = []; f_peersets = []; f_ts = z "0" }

let rec take_until sep l = match l with
  | [] -> ([], [])
  | x :: r when x = sep -> ([], r)
  | x :: r -> let (a, b) = take_until sep r in (x :: a, b)

let rec firstn k l = if k <= 0 then [] else match l with [] -> [] | x :: r -> x :: firstn (k - 1) r

let log_of lin = try Hashtbl.find logs lin with Not_found -> failwith ("unknown lineage " ^ lin)

let handle check diff (toks : string list) (raw : string) : bool =
  match toks with
  | "H" :: _ -> Hashtbl.reset logs; Hashtbl.reset evtab; last_cc := None; false      (* Hgdrv resets its own tables *)
  | "CN" :: lin :: _ -> Hgdrv.pools_check := false; Hashtbl.replace logs lin (ref []); true
  | "CW" :: lin :: "E" :: topo :: rest ->
    let (e, _) = Hgdrv.parse_event rest in
    Hashtbl.replace evtab (zs e.e_id) e;
    let l = log_of lin in l := WEvent (e, z topo) :: !l; true
  | "CW" :: lin :: "U" :: topo :: eid :: [] ->
    let e = try Hashtbl.find evtab eid with Not_found -> failwith ("U of unknown event " ^ eid) in
    let l = log_of lin in l := WEvent (e, z topo) :: !l; true
  | "CW" :: lin :: "P" :: r :: ps ->
    let l = log_of lin in l := WPeerSet (z r, map peer_of ps) :: !l; true
  | "CW" :: lin :: "B" :: idx :: rr :: bid :: com :: sigs ->
    let sg = map (fun t -> match Stdlib.String.split_on_char ':' t with
        | [v; o] -> (z v, z o) | _ -> failwith "sig") sigs in
    let b = { b_index = z idx; b_rr = z rr; b_ts = z "0"; b_txs = []; b_itxs = []; b_frame = dummy_frame; b_peers = [];
              b_committed = (com = "1"); b_receipts = []; b_bodyid = z bid; b_sigs = sg } in
    let l = log_of lin in l := WBlock b :: !l; true
  | "CW" :: lin :: ("R" | "X") :: r :: [] -> let l = log_of lin in l := WRound (z r) :: !l; true
  | "CW" :: lin :: "F" :: r :: [] -> let l = log_of lin in l := WFrame (z r) :: !l; true
  | "CT" :: lin :: [] ->
    (* the process died inside the newest write of this lineage: it was never acknowledged *)
    let l = log_of lin in (match !l with _ :: r -> l := r | [] -> ()); true
  | "CC" :: id :: lin :: k :: self :: rest ->
    let (gen, rest) = take_until "|" rest in
    let (ids, obs) = take_until "=>" rest in
    let l = log_of lin in
    let prefix = firstn (int_of_string k) (Stdlib.List.rev !l) in
    let d = db_of_log prefix in
    let r = bootstrap_cur (z self) (map peer_of gen) (map z ids) d in
    let (hd, sq) = head_seq r.br_st in
    check "CC" raw (Stdlib.String.concat " " obs)
      (Printf.sprintf "%s %s %s" (zs hd) (zs sq) (if r.br_ok then "ok" else "error"));
    (* C11_redelivers: the guarded bootstrap never takes a block from the database *)
    if r.br_db_block then diff "CC" (raw ^ " db-block") "no database block consulted" "model consulted a database block";
    (match !last_cc with Some old -> Hashtbl.remove Hgdrv.nodes old | None -> ());
    last_cc := Some id;
    Hashtbl.replace Hgdrv.nodes id { Hgdrv.st = r.br_st; shadow = Hashtbl.create 256; core = Hgdrv.mk_core (z self) (map peer_of gen) r.br_st; self = self };
    true
  | _ -> false
