(* Driver for the fast-sync cases written by harness/cmd/ff (trusted glue; C12, C14).
     FFMODE current|fixed|<dkgc> which decision rule of Model/FastSync.v is compared with the code
                                 (dkgc = 4 digits 0/1: dedupe, known, guard, check-first)
     FR <hist> <rid> | B <index> <rr> | BP <key list|?|e> | P <bytes:var>.. | FH <blk> <frm>
                     | S <bytes:var:short:verif>.. | PS <round>=<bytes:var,..>.. | SN <snapshot>
     FF <hist> <case> <victim> <kind> <rid> | R <reset> | K <sets> => <class> <noop> <post>
     NF <hist> <case> <kind> | RESP <rid|->.. | R <reset> | K <sets> => <class|none> <restores> <snap|-> <noop> <babbling>
     FS <hist> <seq> <step> <victim> <kind> <rid> | R <reset> | K <sets> | G <genesis> => <class> <noop> <post>
     NS <hist> <seq> <step> <kind> | RESP <rid|->.. | R <reset> | K <sets> | G <genesis> | RF <0|1>
                                   => <class|none|restore-error> <restores> <snap|-> <noop> <babbling>
       steps of a SEQUENCE of calls on one core / Node: the model is folded over the sequence (its core /
       node state persists from step to step); after an adopted step the known sets predicted by
       known_after are compared with the K of the next step (kind FSK / NSK).
   Fields the model leaves unspecified are printed "-" by the model and not compared.
   NOTE lines report the cases the current rule accepts and the repaired rule refuses. *)
open Zutil
open FastSync

(* which repairs the tree under test has: dedupe, known, guard, check-first *)
let rule = ref rule_current
let parse_rule (m : string) : ffrule = match m with
  | "current" -> rule_current
  | "fixed" -> rule_fixed
  | _ when Stdlib.String.length m = 4 ->
    let b i = (Stdlib.String.get m (i)) = '1' in
    { rl_dedupe = b 0; rl_known = b 1; rl_guard = b 2; rl_check_first = b 3 }
  | _ -> failwith ("bad FFMODE " ^ m)

type resp_def = { blk : ffblock; peers : fpeer list; fhash : BinNums.coq_Z; snap : BinNums.coq_Z;
                  psets : (BinNums.coq_Z * fpeer list) list }

let resps : (string, resp_def) Hashtbl.t = Hashtbl.create 1024

let z = z_of_string
let zs = string_of_z
let map = Stdlib.List.map
let join = Stdlib.String.concat " "

let rec segments (l : string list) : string list list * string list =
  (* split on "|" up to "=>" ; returns (segments, tokens after =>) *)
  let rec go cur acc l = match l with
    | [] -> (Stdlib.List.rev (Stdlib.List.rev cur :: acc), [])
    | "=>" :: r -> (Stdlib.List.rev (Stdlib.List.rev cur :: acc), r)
    | "|" :: r -> go [] (Stdlib.List.rev cur :: acc) r
    | x :: r -> go (x :: cur) acc r in
  go [] [] l

let zlist (s : string) : BinNums.coq_Z list =
  if s = "e" || s = "" then [] else map z (Stdlib.String.split_on_char ',' s)

let colon (s : string) = Stdlib.String.split_on_char ':' s

let parse_peer (s : string) : fpeer = match colon s with
  | [b; v] -> { fp_bytes = z b; fp_var = z v }
  | _ -> failwith ("bad peer " ^ s)

let parse_sig (s : string) : sigent = match colon s with
  | [b; v; sh; vf] -> { se_bytes = z b; se_var = z v; se_short = (sh = "1"); se_verif = z vf }
  | _ -> failwith ("bad signature entry " ^ s)

let parse_known (s : string) : BinNums.coq_Z list list =
  if s = "" then [] else map zlist (Stdlib.String.split_on_char ';' s)

let define_resp key segs =
  let find tag = match Stdlib.List.find_opt (fun s -> match s with t :: _ -> t = tag | [] -> false) segs with
    | Some (_ :: r) -> r | _ -> failwith ("FR line without " ^ tag) in
  let (i, rr) = match find "B" with [i; rr] -> (z i, z rr) | _ -> failwith "bad B" in
  let bp = match find "BP" with ["?"] -> None | [l] -> Some (zlist l) | _ -> failwith "bad BP" in
  let ps = map parse_peer (find "P") in
  let (bfh, ffh) = match find "FH" with [a; b] -> (z a, z b) | _ -> failwith "bad FH" in
  let sg = map parse_sig (find "S") in
  let sn = match find "SN" with [s] -> z s | _ -> failwith "bad SN" in
  let pss = map (fun t -> match Stdlib.String.split_on_char '=' t with
      | [r; ""] -> (z r, [])
      | [r; l] -> (z r, map parse_peer (Stdlib.String.split_on_char ',' l))
      | _ -> failwith ("bad PS entry " ^ t)) (find "PS") in
  Hashtbl.replace resps key
    { blk = { fb_index = i; fb_rr = rr; fb_peers_hash = bp; fb_frame_hash = bfh; fb_sigs = sg };
      peers = ps; fhash = ffh; snap = sn; psets = pss }

let frame_of (d : resp_def) (reset : BinNums.coq_Z) : ffframe =
  { ff_peers = d.peers; ff_hash = d.fhash; ff_reset = reset; ff_peersets = d.psets }

let class_str (r : ffres) = match r with
  | FFOk -> "ok" | FFWrongPeerSet -> "wrong-peerset" | FFNotEnoughSigs -> "not-enough-sigs"
  | FFBadFrameHash -> "bad-frame-hash" | FFResetError -> "reset-error"
  | FFPanicCheck | FFPanicReset -> "panic"

let keys_str (ps : fpeer list) =
  if ps = [] then "e" else Stdlib.String.concat "," (map (fun p -> zs p.fp_bytes) ps)

let core0 : core_state = { cs_hg = HgOpaque (z "0"); cs_validators = []; cs_peers = []; cs_rest = z "0" }

(* compare two space-separated observations field by field; "-" in the model = unspecified *)
let compare_fields check kind raw (impl : string list) (model : string list) =
  let rec norm i m = match i, m with
    | x :: i', "-" :: m' -> "-" :: norm i' m'
    | x :: i', _ :: m' -> x :: norm i' m'
    | l, _ -> l in
  check kind raw (join (norm impl model)) (join model)

let seg_val segs tag = match Stdlib.List.find_opt (fun s -> match s with t :: _ -> t = tag | [] -> false) segs with
  | Some (_ :: r) -> r | _ -> []

(* sequences: model state per (history, sequence) and the known sets predicted after an adoption *)
let core_states : (string, core_state) Hashtbl.t = Hashtbl.create 256
let node_states : (string, node_state) Hashtbl.t = Hashtbl.create 256
let predicted : (string, BinNums.coq_Z list list) Hashtbl.t = Hashtbl.create 256

let canon_sets (k : BinNums.coq_Z list list) : string =
  Stdlib.String.concat ";" (Stdlib.List.sort_uniq compare
    (map (fun l -> Stdlib.String.concat "," (map zs l)) k))

(* the K of this step must be what known_after predicted when the previous step adopted a response *)
let check_predicted check kind raw key (known : BinNums.coq_Z list list) =
  match Hashtbl.find_opt predicted key with
  | Some p -> Hashtbl.remove predicted key; check kind raw (canon_sets known) (canon_sets p)
  | None -> ()

let handle check diff (toks : string list) (raw : string) : bool =
  match toks with
  | ["FFMODE"; m] -> rule := parse_rule m; true
  | "FR" :: hid :: rid :: "|" :: rest ->
    let (segs, _) = segments rest in
    define_resp (hid ^ "/" ^ rid) segs; true
  | "FF" :: hid :: cid :: vkind :: mkind :: rid :: "|" :: rest ->
    let (segs, impl) = segments rest in
    (match Hashtbl.find_opt resps (hid ^ "/" ^ rid) with
     | None -> diff "FF" raw "case" "no FR line for this response"; true
     | Some d ->
       let reset = match seg_val segs "R" with [r] -> z r | _ -> z "1" in
       let known = match seg_val segs "K" with [k] -> parse_known k | _ -> [] in
       let f = frame_of d reset in
       let (rc, _) = core_ff_gen rule_current known core0 d.blk f in
       let (rf, _) = core_ff_gen rule_fixed known core0 d.blk f in
       let (r, st') = core_ff_gen !rule known core0 d.blk f in
       let noop = match r with FFOk -> "-" | _ -> if st' = core0 then "1" else "0" in
       let post = match r with
         | FFOk -> Printf.sprintf "%s:%s:%s:%s" (zs d.blk.fb_index) (zs d.blk.fb_rr)
                     (keys_str st'.cs_validators) (keys_str st'.cs_peers)
         | _ -> "-" in
       compare_fields check "FF" raw impl [class_str r; noop; post];
       (match rc, rf with
        | FFOk, FFOk -> ()
        | FFOk, _ -> Printf.printf "NOTE ff-fixed-refuses %s %s %s %s %s\n" hid cid vkind mkind (class_str rf)
        | FFPanicCheck, FFOk -> ()   (* the unchanged code panics on an entry the repaired rule never verifies *)
        | _, FFOk ->
          (* theorem C12_fixed_stricter, checked on the data *)
          diff "FFX" raw ("current=" ^ class_str rc) "fixed=ok (the repaired rule must be stricter)"
        | _, _ -> ());
       true)
  | "NF" :: hid :: cid :: kind :: "|" :: rest ->
    let (segs, impl) = segments rest in
    let reset = match seg_val segs "R" with [r] -> z r | _ -> z "1" in
    let known = match seg_val segs "K" with [k] -> parse_known k | _ -> [] in
    let answers = map (fun rid ->
        if rid = "-" then None else
          match Hashtbl.find_opt resps (hid ^ "/" ^ rid) with
          | None -> failwith ("NF refers to unknown response " ^ rid)
          | Some d -> Some { r_block = d.blk; r_frame = frame_of d reset; r_snapshot = d.snap })
        (seg_val segs "RESP") in
    let ns0 = { ns_core = core0; ns_app = []; ns_babbling = false } in
    let (rc, nsc) = node_ff_gen rule_current known ns0 answers in
    let (rf, nsf) = node_ff_gen rule_fixed known ns0 answers in
    let (r, ns') = node_ff_gen !rule known ns0 answers in
    let cls = match r with None -> "none" | Some x -> class_str x in
    let nres = string_of_int (Stdlib.List.length ns'.ns_app) in
    let snap = match ns'.ns_app with s :: _ -> zs s | [] -> "-" in
    let noop = match r with Some FFOk -> "-" | _ -> if ns'.ns_core = core0 then "1" else "0" in
    compare_fields check "NF" raw impl [cls; nres; snap; noop; (if ns'.ns_babbling then "1" else "0")];
    (match rc, rf with
     | Some FFOk, Some FFOk -> ()
     | Some FFOk, Some x -> Printf.printf "NOTE nf-fixed-refuses %s %s node %s %s\n" hid cid kind (class_str x)
     | _, _ -> ());
    (if Stdlib.List.length nsc.ns_app > Stdlib.List.length nsf.ns_app then
       Printf.printf "NOTE nf-fixed-does-not-restore %s %s node %s\n" hid cid kind);
    true
  | "FS" :: hid :: sq :: step :: vkind :: mkind :: rid :: "|" :: rest ->
    let (segs, impl) = segments rest in
    (match Hashtbl.find_opt resps (hid ^ "/" ^ rid) with
     | None -> diff "FS" raw "case" "no FR line for this response"; true
     | Some d ->
       let key = "c" ^ hid ^ "/" ^ sq in
       let reset = match seg_val segs "R" with [r] -> z r | _ -> z "1" in
       let known = match seg_val segs "K" with [k] -> parse_known k | _ -> [] in
       let genesis = match seg_val segs "G" with [g] -> zlist g | _ -> [] in
       check_predicted check "FSK" raw key known;
       let st = if step = "1" then core0 else (match Hashtbl.find_opt core_states key with Some s -> s | None -> core0) in
       let f = frame_of d reset in
       let (r, st') = core_ff_gen !rule known st d.blk f in
       Hashtbl.replace core_states key st';
       (match r with FFOk -> Hashtbl.replace predicted key (known_after genesis f) | _ -> Hashtbl.remove predicted key);
       let noop = match r with FFOk -> "-" | _ -> if st' = st then "1" else "0" in
       let post = match r with
         | FFOk -> Printf.sprintf "%s:%s:%s:%s" (zs d.blk.fb_index) (zs d.blk.fb_rr)
                     (keys_str st'.cs_validators) (keys_str st'.cs_peers)
         | _ -> "-" in
       ignore vkind; ignore mkind;
       compare_fields check "FS" raw impl [class_str r; noop; post]; true)
  | "NS" :: hid :: sq :: step :: kind :: "|" :: rest ->
    let (segs, impl) = segments rest in
    let key = "n" ^ hid ^ "/" ^ sq in
    let reset = match seg_val segs "R" with [r] -> z r | _ -> z "1" in
    let known = match seg_val segs "K" with [k] -> parse_known k | _ -> [] in
    let genesis = match seg_val segs "G" with [g] -> zlist g | _ -> [] in
    let restore_ok = (match seg_val segs "RF" with ["1"] -> false | _ -> true) in
    let answers = map (fun rid ->
        if rid = "-" then None else
          match Hashtbl.find_opt resps (hid ^ "/" ^ rid) with
          | None -> failwith ("NS refers to unknown response " ^ rid)
          | Some d -> Some { r_block = d.blk; r_frame = frame_of d reset; r_snapshot = d.snap })
        (seg_val segs "RESP") in
    check_predicted check "NSK" raw key known;
    let ns0 = { ns_core = core0; ns_app = []; ns_babbling = false } in
    let ns = if step = "1" then ns0 else (match Hashtbl.find_opt node_states key with Some s -> s | None -> ns0) in
    let (r, ns') = node_step_gen !rule known ns answers restore_ok in
    Hashtbl.replace node_states key ns';
    (match r, best_response answers with
     | NRes FFOk, Some x -> Hashtbl.replace predicted key (known_after genesis x.r_frame)
     | _ -> Hashtbl.remove predicted key);
    let cls = match r with NNone -> "none" | NRestoreFailed -> "restore-error" | NRes x -> class_str x in
    let nres = string_of_int (Stdlib.List.length ns'.ns_app - Stdlib.List.length ns.ns_app) in
    let snap = if Stdlib.List.length ns'.ns_app > Stdlib.List.length ns.ns_app
      then (match ns'.ns_app with s :: _ -> zs s | [] -> "-") else "-" in
    let noop = match r with NRes FFOk -> "-" | _ -> if ns'.ns_core = ns.ns_core then "1" else "0" in
    ignore kind;
    compare_fields check "NS" raw impl [cls; nres; snap; noop; (if ns'.ns_babbling then "1" else "0")];
    true
  | _ -> false
