(* Driver for the traces written by harness/cmd/gate (trusted glue, C17).
     GT N <node> parts <id>... cfg <syncLimit> <suspendLimit>
     GT Q <node> <id>...   (the repertoire changed)
     GT E <node> <eid> <creator> <index>
     GT G <node> <request> ; <digest> => <answer> ; <digest'> ; NEW <eid:creator:index>...
     GT X <node> ; <digest> => <digest'>
     GT H <node> ; <digest> => <state'>
     GT I <maintenance> <in peer set> <fast sync> => <state>
   The model node is rebuilt for every line from the digest printed by the harness, the event list
   accumulated from the E lines / NEW lists, and the N line. *)
open Zutil

type nd = { mutable evs : Gate.event list; mutable parts : BinNums.coq_Z list; sync_limit : BinNums.coq_Z; suspend_limit : BinNums.coq_Z }
let nodes : (string, nd) Hashtbl.t = Hashtbl.create 64

let z = z_of_string
let zs = string_of_z
let join = Stdlib.String.concat " "
let map = Stdlib.List.map

let state_of = function
  | "Babbling" -> Gate.Babbling | "CatchingUp" -> Gate.CatchingUp | "Joining" -> Gate.Joining
  | "Leaving" -> Gate.Leaving | "Shutdown" -> Gate.Shutdown | "Suspended" -> Gate.Suspended
  | s -> failwith ("bad state " ^ s)
let state_str = function
  | Gate.Babbling -> "Babbling" | Gate.CatchingUp -> "CatchingUp" | Gate.Joining -> "Joining"
  | Gate.Leaving -> "Leaving" | Gate.Shutdown -> "Shutdown" | Gate.Suspended -> "Suspended"

let rec split_on (sep : string) (l : string list) : string list * string list =
  match l with
  | [] -> ([], [])
  | x :: r when x = sep -> ([], r)
  | x :: r -> let (a, b) = split_on sep r in (x :: a, b)

let opt_z s = if s = "-" then None else Some (z s)
let opt_str = function None -> "-" | Some v -> zs v

let node_of (n : nd) (d : string list) : Gate.node =
  match d with
  | [st; self; deliv; pool; ipool; undet; init; vals; removed; accepted; lcr; anchor] ->
    { Gate.n_state = state_of st; n_evs = n.evs; n_parts = n.parts; n_self = z self; n_delivered = z deliv;
      n_pool = z pool; n_ipool = z ipool; n_undet = z undet; n_init_undet = z init; n_validators = z vals;
      n_suspend_limit = n.suspend_limit; n_sync_limit = n.sync_limit; n_removed = z removed;
      n_accepted = z accepted; n_lcr = opt_z lcr; n_anchor = (anchor = "1") }
  | _ -> failwith ("bad digest: " ^ join d)

let digest_str (m : Gate.node) : string =
  join [state_str m.Gate.n_state; zs m.Gate.n_self; zs m.Gate.n_delivered; zs m.Gate.n_pool; zs m.Gate.n_ipool;
        zs m.Gate.n_undet; zs m.Gate.n_init_undet; zs m.Gate.n_validators; zs m.Gate.n_removed; zs m.Gate.n_accepted;
        opt_str m.Gate.n_lcr; (if m.Gate.n_anchor then "1" else "0")]

let parse_known (s : string) : (BinNums.coq_Z * BinNums.coq_Z) list =
  if s = "-" then [] else
    map (fun kv -> match Stdlib.String.split_on_char ':' kv with
        | [k; v] -> (z k, z v) | _ -> failwith "known") (Stdlib.String.split_on_char ',' s)

let parse_triple (s : string) : Gate.event =
  match Stdlib.String.split_on_char ':' s with
  | [e; c; i] -> { Gate.ev_creator = z c; ev_index = z i; ev_id = z e }
  | _ -> failwith ("bad event " ^ s)

let b s = s = "1"
let bs v = if v then "1" else "0"

let resp_str (r : Gate.response) : string = match r with
  | Gate.RespGate -> "gate"
  | Gate.RespUnknown -> "unknown"
  | Gate.RespSync (e, evs, kn) ->
    join (["sync"; bs e; "E"] @ map (fun (x : Gate.event) -> zs x.Gate.ev_id) evs @ ["K"] @
          map (fun (k, v) -> zs k ^ ":" ^ zs v) kn)
  | Gate.RespEager e -> "eager " ^ bs e
  | Gate.RespFF e -> "ff " ^ bs e
  | Gate.RespJoin (e, a) -> "join " ^ bs e ^ " " ^ bs a

(* the effect an eager sync has on a Babbling node is read off the implementation's next digest; for a node
   in another state a made-up non-trivial effect is supplied, which the model must ignore *)
let effect_of (before : Gate.node) (after : Gate.node) (fresh : Gate.event list) (err : bool) (babbling : bool) : Gate.effect =
  if babbling then
    { Gate.ef_new = fresh; ef_self = BinInt.Z.sub after.Gate.n_self before.Gate.n_self;
      ef_deliv = BinInt.Z.sub after.Gate.n_delivered before.Gate.n_delivered; ef_undet = after.Gate.n_undet;
      ef_pool = after.Gate.n_pool; ef_ipool = after.Gate.n_ipool; ef_validators = after.Gate.n_validators;
      ef_removed = after.Gate.n_removed; ef_lcr = after.Gate.n_lcr; ef_anchor = after.Gate.n_anchor; ef_err = err }
  else
    { Gate.ef_new = [{ Gate.ev_creator = z "1"; ev_index = z "99"; ev_id = z "-7" }]; ef_self = z "1"; ef_deliv = z "1";
      ef_undet = BinInt.Z.add before.Gate.n_undet (z "3"); ef_pool = z "0"; ef_ipool = z "0";
      ef_validators = before.Gate.n_validators; ef_removed = before.Gate.n_removed; ef_lcr = Some (z "5");
      ef_anchor = true; ef_err = false }

let handle check diff (toks : string list) (raw : string) : bool =
  match toks with
  | "GT" :: "N" :: id :: "parts" :: rest ->
    let (ps, cfg) = split_on "cfg" rest in
    (match cfg with
     | [sl; sus] -> Hashtbl.replace nodes id { evs = []; parts = map z ps; sync_limit = z sl; suspend_limit = z sus }
     | _ -> failwith "bad N line"); true
  | "GT" :: "Q" :: id :: ps ->
    let n = Hashtbl.find nodes id in n.parts <- map z ps; true
  | "GT" :: "E" :: id :: e :: c :: i :: [] ->
    let n = Hashtbl.find nodes id in
    n.evs <- n.evs @ [{ Gate.ev_creator = z c; ev_index = z i; ev_id = z e }]; true
  | "GT" :: "G" :: id :: rest ->
    let n = Hashtbl.find nodes id in
    let (reqt, rest1) = split_on ";" rest in
    let (dbefore, rest2) = split_on "=>" rest1 in
    let (answer, rest3) = split_on ";" rest2 in
    let (dafter, rest4) = split_on ";" rest3 in
    let fresh = match rest4 with "NEW" :: l -> map parse_triple l | _ -> failwith "no NEW" in
    let before = node_of n dbefore in
    let after = node_of n dafter in
    let babbling = before.Gate.n_state = Gate.Babbling in
    let req = match reqt with
      | ["sync"; lim; kn] -> Gate.RSync (parse_known kn, z lim)
      | ["eager"; _; bad] ->
        let err = if bad = "1" then true else if bad = "0" then false
          else (match answer with ["eager"; "1"] -> true | _ -> false) in
        Gate.REager (effect_of before after fresh err babbling)
      | ["ff"] -> Gate.RFastForward
      | ["join"; s; p] -> Gate.RJoin (b s, b p, None)
      | ["unknown"] -> Gate.RUnknown
      | _ -> failwith ("bad request " ^ join reqt) in
    let (m', resp) = Gate.process_rpc before req in
    let added = Stdlib.List.length m'.Gate.n_evs - Stdlib.List.length before.Gate.n_evs in
    n.evs <- n.evs @ fresh;
    check "GT-G" raw
      (join answer ^ " ; " ^ join dafter ^ " ; " ^ string_of_int (Stdlib.List.length fresh))
      (resp_str resp ^ " ; " ^ digest_str m' ^ " ; " ^ string_of_int added); true
  | "GT" :: "X" :: id :: ";" :: rest ->
    let n = Hashtbl.find nodes id in
    let (dbefore, dafter) = split_on "=>" rest in
    let m' = Gate.add_transaction (node_of n dbefore) in
    check "GT-X" raw (join dafter) (digest_str m'); true
  | "GT" :: "H" :: id :: ";" :: rest ->
    let n = Hashtbl.find nodes id in
    let (dbefore, st) = split_on "=>" rest in
    let m' = Gate.check_suspend (node_of n dbefore) in
    check "GT-H" raw (join st) (state_str m'.Gate.n_state); true
  | "GT" :: "I" :: m :: p :: f :: "=>" :: st :: [] ->
    check "GT-I" raw st (state_str (Gate.init_state (b m) (b p) (b f))); true
  | _ -> false
