open Datatypes
open BinNums
open BinInt
open Zutil

let rec take_until (sep : string) (l : string list) : string list * string list =
  match l with
  | [] -> ([], [])
  | x :: r when x = sep -> ([], r)
  | x :: r -> let (a, b) = take_until sep r in (x :: a, b)

(* O A id key R id key ... => keys ; len sm tc *)
let quorum_ops check raw (rest : string list) =
  let (opsl, after) = take_until "=>" rest in
  let (keysl, tail) = take_until ";" after in
  let rec ops l = match l with
    | "A" :: id :: k :: r -> Quorum.OpAdd { Quorum.pid = z_of_string id; pkey = z_of_string k } :: ops r
    | "R" :: id :: k :: r -> Quorum.OpRemove { Quorum.pid = z_of_string id; pkey = z_of_string k } :: ops r
    | [] -> []
    | _ -> failwith "bad O line" in
  let ps = Quorum.ps_run (ops opsl) in
  let mk = Stdlib.String.concat " " (Stdlib.List.map string_of_z (Quorum.keys ps)) in
  let mt = Stdlib.String.concat " " [string_of_z (Quorum.ps_len ps); string_of_z (Quorum.super_majority ps);
                              string_of_z (Quorum.trust_count ps)] in
  check "O" raw (Stdlib.String.concat " " keysl ^ " ; " ^ Stdlib.String.concat " " tail) (mk ^ " ; " ^ mt)

(* M nh nb H .. B .. L <list> => median mutated *)
let median_case check raw (rest : string list) =
  let (_, after) = take_until "L" rest in
  let (l, res) = take_until "=>" after in
  let m = Median.median (Stdlib.List.map z_of_string l) in
  check "M" raw (match res with r :: _ -> r | [] -> "?") (string_of_z m)

let dispatch check diff (k : string) (toks : string list) (raw : string) =
  if k = "M" then median_case check raw (Stdlib.List.tl toks) else
  if Wiredrv.handle check diff toks raw then () else
  if Storedrv.handle check diff toks raw then () else
  if Gatedrv.handle check diff toks raw then () else
  if Proxydrv.handle check diff toks raw then () else
  if Ffdrv.handle check diff toks raw then () else
  if Hostiledrv.handle check diff toks raw then () else
  if Resetdrv.handle check diff toks raw then () else
  if Crashdrv.handle check diff toks raw then () else
  if Hgdrv.handle check diff toks raw then ()
  else failwith ("unknown case kind " ^ k)
