(* Driver for hashgraph traces written by harness/cmd/sim, cmd/dagrun, ... (trusted glue).
   Keeps one model state per trace node, applies the same inputs, prints the model's
   observables in the same canonical text as hx.AfterAction and compares. *)
open Datatypes
open BinNums
open Zutil
open HgImpl

(* cmd/crash replays a node's own events from its database: the pool discipline (C05) is not observable there *)
let pools_check = ref true
(* nodes driven with batched consensus passes: the ancestry-only layer (HgSpec) describes per-event mode only (known finding C03-batching-dependence) *)
let batched : (string, unit) Hashtbl.t = Hashtbl.create 16
type node = { mutable st : hg; shadow : (string, string) Hashtbl.t; mutable pools : NodeModel.pools; self : string }

let nodes : (string, node) Hashtbl.t = Hashtbl.create 16
let kcount = ref 0
let dead : (string, unit) Hashtbl.t = Hashtbl.create 16   (* nodes with injected faults: not modelled any more *)
let reset_nodes : (string, unit) Hashtbl.t = Hashtbl.create 16   (* nodes that fast-forwarded (resetdrv.ml): they can re-learn their own old events from gossip *)
let body_of_id : (string, string) Hashtbl.t = Hashtbl.create 64
let id_of_body : (string, string) Hashtbl.t = Hashtbl.create 64

let zs = string_of_z
let oz = function None -> "-" | Some x -> zs x
let b2s b = if b then "1" else "0"
let join = Stdlib.String.concat " "
let map = Stdlib.List.map
let sort_by f l = Stdlib.List.sort (fun a b -> compare (f a) (f b)) l

let fe_str (fe : frameev) = Printf.sprintf "%s:%s:%s:%s" (zs fe.fe_id) (zs fe.fe_round) (zs fe.fe_lt) (b2s fe.fe_wit)
let peers_str (ps : Quorum.peerset) = Stdlib.String.concat "," (map (fun (p : Quorum.peer) -> zs p.Quorum.pkey) ps)

let frame_digest (f : frame) =
  let b = Buffer.create 256 in
  Buffer.add_string b (Printf.sprintf "%s %s E" (zs f.f_round) (zs f.f_ts));
  Stdlib.List.iter (fun fe -> Buffer.add_string b (" " ^ fe_str fe)) f.f_events;
  Buffer.add_string b " ROOTS";
  Stdlib.List.iter (fun (c, evs) ->
      Buffer.add_string b (" c" ^ zs c);
      Stdlib.List.iter (fun fe -> Buffer.add_string b (" " ^ fe_str fe)) evs) f.f_roots;
  Buffer.add_string b " PS";
  Stdlib.List.iter (fun (r, ps) -> Buffer.add_string b (Printf.sprintf " %s=%s" (zs r) (peers_str ps))) f.f_peersets;
  Buffer.add_string b (" P " ^ peers_str f.f_peers);
  Buffer.contents b

let body_str (b : block) (with_id : bool) =
  let acc id = match Stdlib.List.assoc_opt id (map (fun (i, a) -> (zs i, a)) b.b_receipts) with
    | Some a -> b2s a | None -> "-1" in
  Printf.sprintf "%s %s %s %s T%s X%s" (zs b.b_index) (zs b.b_rr) (zs b.b_ts)
    (if with_id then zs b.b_bodyid else "_")
    (Stdlib.String.concat "" (map (fun t -> " " ^ zs t) b.b_txs))
    (Stdlib.String.concat "" (map (fun (t : itx) -> Printf.sprintf " %s:%s" (zs t.itx_id) (acc (zs t.itx_id))) b.b_itxs))

let coords_str (c : coords) =
  join (map (fun (o, (i, e)) -> Printf.sprintf "%s:%s:%s" (zs o) (zs i) (zs e))
          (sort_by (fun (o, _) -> int_of_z o) c))

let tri = function Undefined -> "U" | TTrue -> "T" | TFalse -> "F"

let dump (st : hg) : (string * string) list =
  let out = ref [] in
  let add k v = out := (k, v) :: !out in
  Stdlib.List.iter (fun (id, (e : evst)) ->
      add ("e" ^ zs id) (Printf.sprintf "%s %s %s" (oz e.ev_round) (oz e.ev_lt) (oz e.ev_rr));
      add ("c" ^ zs id) (Printf.sprintf "LA %s FD %s" (coords_str e.ev_la) (coords_str e.ev_fd)))
    (ZMap.zelements st.events);
  Stdlib.List.iter (fun (r, (ri : rinfo)) ->
      let cr = sort_by (fun (x, _) -> int_of_z x) ri.ri_created in
      add ("r" ^ zs r)
        (Printf.sprintf "%s C%s R%s" (b2s ri.ri_decided)
           (Stdlib.String.concat "" (map (fun (x, (w, f)) -> Printf.sprintf " %s:%s:%s" (zs x) (b2s w) (tri f)) cr))
           (Stdlib.String.concat "" (map (fun x -> " " ^ zs x) ri.ri_received))))
    (ZMap.zelements st.rounds);
  Stdlib.List.iteri (fun k (b : block) ->
      add ("d" ^ string_of_int k) (body_str b true ^ " F " ^ frame_digest b.b_frame)) st.delivered;
  Stdlib.List.iter (fun (i, (b : block)) ->
      let sg = sort_by (fun (v, _) -> int_of_z v) b.b_sigs in
      add ("g" ^ zs i) (b2s b.b_committed ^ Stdlib.String.concat "" (map (fun (v, o) -> Printf.sprintf " %s:%s" (zs v) (zs o)) sg)))
    (ZMap.zelements st.blocks);
  add "st" (Printf.sprintf "%d %s %s P%s A %s T %s L %s B %s" (Stdlib.List.length st.undetermined) (zs st.last_round)
              (oz st.last_consensus)
              (Stdlib.String.concat "" (map (fun (i, d) -> Printf.sprintf " %s:%s" (zs i) (b2s d)) st.pending))
              (oz st.anchor) (zs st.topo) (zs st.pending_loaded) (zs st.last_block));
  add "u" (join (map zs st.undetermined));
  add "kn" (join (map (fun (o, i) -> Printf.sprintf "%s:%s" (zs o) (zs i)) (sort_by (fun (o, _) -> int_of_z o) (known_events st))));
  add "ps" (join (map (fun (r, ps) -> Printf.sprintf "%s=%s" (zs r) (peers_str ps)) st.peersets));
  !out

let rec take_n n l = if n = 0 then ([], l) else match l with x :: r -> let (a, b) = take_n (n - 1) r in (x :: a, b) | [] -> failwith "short line"

let parse_event (toks : string list) : event * string list =
  match toks with
  | id :: cr :: idx :: sp :: op :: ts :: coin :: sigkey :: sigok :: "T" :: nt :: rest ->
    let (txs, rest) = take_n (int_of_string nt) rest in
    let rest = match rest with "X" :: r -> r | _ -> failwith "expected X" in
    let nx = int_of_string (Stdlib.List.hd rest) in
    let (xs, rest) = take_n (6 * nx) (Stdlib.List.tl rest) in
    let rec itxs l = match l with
      | i :: add :: pid :: pkey :: sok :: acc :: r ->
        { itx_id = z_of_string i; itx_add = (add = "1");
          itx_peer = { Quorum.pid = z_of_string pid; pkey = z_of_string pkey };
          itx_sigok = (sok = "1"); itx_accept = (acc = "1") } :: itxs r
      | [] -> [] | _ -> failwith "itx" in
    let rest = match rest with "S" :: r -> r | _ -> failwith "expected S" in
    let ns = int_of_string (Stdlib.List.hd rest) in
    let (ss, rest) = take_n (3 * ns) (Stdlib.List.tl rest) in
    let rec sigs l = match l with
      | v :: i :: o :: r -> { bs_validator = z_of_string v; bs_index = z_of_string i; bs_over = z_of_string o } :: sigs r
      | [] -> [] | _ -> failwith "sig" in
    ({ e_id = z_of_string id; e_creator = z_of_string cr; e_index = z_of_string idx; e_sp = z_of_string sp;
       e_op = z_of_string op; e_ts = z_of_string ts; e_coin = (coin = "1"); e_sigkey = z_of_string sigkey;
       e_txs = map z_of_string txs; e_itxs = itxs xs; e_sigs = sigs ss; e_sigok = (sigok = "1") }, rest)
  | _ -> failwith "bad event line"

let res_str = function
  | InsOk -> "ok" | InsBadSig -> "badsig" | InsSelfParentNormal -> "selfparent-normal"
  | InsSelfParentOther -> "selfparent-other" | InsOtherParent -> "otherparent" | InsWire -> "wire" | InsStore -> "store"

(* window statistics: largest last_round - (last_consensus + 1) seen, peer-set table insertions, insertions at or below last_round *)
let w_max_gap = ref 0
let w_insertions = ref 0
let w_below = ref 0
let w_gap_over = ref 0   (* steps after which last_round > (next round to process before the step) + 5: Window.gap_stepb false *)
let node_of id = try Hashtbl.find nodes id with Not_found -> failwith ("unknown node " ^ id)

let handle check diff (toks : string list) (raw : string) : bool =
  match toks with
  | ("B" | "I" | "G" | "o" | "K" | "J" | "P" | "T") :: id :: _ when Hashtbl.mem dead id -> true
  | "J" :: id :: rest ->                       (* InsertEvent only (batched consensus passes) *)
    let n = node_of id in
    Hashtbl.replace batched id ();
    let (e, tail) = parse_event rest in
    let (res, st') = insert_event n.st e in
    n.st <- st';
    let expect = match tail with "=>" :: r :: _ -> r | _ -> "?" in
    check "J" raw expect (res_str res); true
  | "P" :: id :: [] -> let n = node_of id in n.st <- run_consensus n.st; true
  | "F" :: id :: [] -> Hashtbl.replace dead id (); true
  | "H" :: _ -> Hashtbl.reset nodes; Hashtbl.reset batched; Hashtbl.reset dead; Hashtbl.reset reset_nodes; Hashtbl.reset body_of_id; Hashtbl.reset id_of_body; true
  | "N" :: id :: self :: gen ->
    let ps = map (fun t -> match Stdlib.String.split_on_char ':' t with
        | [pid; ord] -> { Quorum.pid = z_of_string pid; pkey = z_of_string ord }
        | _ -> failwith "peer") gen in
    Hashtbl.replace nodes id { st = init_hg (z_of_string self) ps []; shadow = Hashtbl.create 256; pools = NodeModel.pools0; self = self }; true
  | "B" :: id :: bid :: [] ->
    let n = node_of id in n.st <- { n.st with oracle = n.st.oracle @ [z_of_string bid] }; true
  | "I" :: id :: rest ->
    let n = node_of id in
    let (e, tail) = parse_event rest in
    let st0 = n.st in
    let (res, st') = insert_and_run n.st e in
    n.st <- st';
    let expect = match tail with "=>" :: r :: _ -> r | _ -> "?" in
    check "I" raw expect (res_str res);
    (* the window of validator-set changes (Model/Window.v; known finding C10-window): statistics over every insertion *)
    let gap = int_of_z (Window.round_gap st') in
    if not (Window.gap_stepb st0 st') then incr w_gap_over;
    if gap > !w_max_gap then w_max_gap := gap;
    let ne = Stdlib.List.length (Window.new_entries st0 st') in
    if ne > 0 then begin
      w_insertions := !w_insertions + ne;
      if not (Window.window_stepb st0 st') then incr w_below
    end;
    (* pools (NodeModel): a self-event carries exactly the transactions pending at its creation *)
    (* (a reset node that receives one of its OWN events created before the reset -- payload differs from its pending
       pool -- is not creating a self-event: the pool discipline of C05 says nothing about it) *)
    if !pools_check && n.self <> "-1" && zs e.e_creator = n.self && res = InsOk
       && not (Hashtbl.mem reset_nodes id && join (map zs e.e_txs) <> join (map zs n.pools.NodeModel.p_txs)) then begin
      let pending = join (map zs n.pools.NodeModel.p_txs) in
      check "SELF" raw (join (map zs e.e_txs)) pending;
      n.pools <- NodeModel.pstep n.pools (NodeModel.PSelfEvent (true, true, [], []))
    end;
    true
  | "T" :: id :: txs ->
    let n = node_of id in
    n.pools <- NodeModel.pstep n.pools (NodeModel.PSubmit (map z_of_string txs)); true
  | "G" :: id :: [] -> let n = node_of id in n.st <- process_sigpool n.st; true
  | "o" :: id :: key :: value ->
    let n = node_of id in
    if key = "pl" && not !pools_check then true else begin Hashtbl.replace n.shadow key (join value); true end
  | "K" :: id :: [] ->
    let n = node_of id in
    let d = dump n.st in
    let d = if !pools_check && n.self <> "-1" then ("pl", join (map zs n.pools.NodeModel.p_txs)) :: d else d in
    let bad = ref 0 in
    if n.st.failed then (incr bad; diff "K" raw "no-error" "model consensus pass failed");
    let seen = Hashtbl.create 256 in
    Stdlib.List.iter (fun (k, v) ->
        Hashtbl.replace seen k ();
        match Hashtbl.find_opt n.shadow k with
        | Some v' when v' = v -> ()
        | Some v' -> incr bad; if !bad <= 5 then diff "K" (raw ^ " key=" ^ k) v' v
        | None -> incr bad; if !bad <= 5 then diff "K" (raw ^ " key=" ^ k) "<absent>" v) d;
    Hashtbl.iter (fun k v -> if not (Hashtbl.mem seen k) then (incr bad; if !bad <= 5 then diff "K" (raw ^ " key=" ^ k) v "<absent>")) n.shadow;
    (* body id <-> body structure must be a bijection over the whole history *)
    Stdlib.List.iter (fun (b : block) ->
        if zs b.b_bodyid <> "-1" then
        let s = body_str b false ^ " F " ^ frame_digest b.b_frame and i = zs b.b_bodyid in
        (match Hashtbl.find_opt body_of_id i with
         | Some s' when s' <> s -> incr bad; diff "K" (raw ^ " bodyid=" ^ i) "one body per id" "two model bodies for one implementation body hash"
         | None -> Hashtbl.replace body_of_id i s | _ -> ());
        (match Hashtbl.find_opt id_of_body s with
         | Some i' when i' <> i -> incr bad; diff "K" (raw ^ " bodyid=" ^ i) "one id per body" "two implementation body hashes for one model body"
         | None -> Hashtbl.replace id_of_body s i | _ -> ())) n.st.delivered;
    (* declarative layer (HgSpec) vs the implementation model, on a sample of the states *)
    incr kcount;
    if !kcount mod 25 = 0 && Stdlib.List.length n.st.peersets = 1 && not (Hashtbl.mem batched id) && n.st.lower_bound = None then begin
      let ps = snd (Stdlib.List.hd n.st.peersets) in
      let mm = HgSpec.spec_mismatches n.st ps in
      check "SPEC" raw "" (join (map (fun (x, k) -> Printf.sprintf "%s:%s" (zs x) (zs k)) mm))
    end;
    if !bad = 0 then check "K" raw "" "" ; true
  | ("Z" | "V" | "#") :: _ -> true
  | _ -> false
