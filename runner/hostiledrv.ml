(* C08 driver: replays the `C8 <helper> <inputs> => <observation>` lines of harness/cmd/hostile on the
   extracted model Hostile.v, under the repair configuration announced by the `C8F` line
   (which of the per-site fixes the tree under test contains). *)
open Datatypes
open BinNums
open BinInt
open Zutil
open Hostile

let cfg : fixes ref = ref { fx_hex = false; fx_sig = false; fx_key = false; fx_parents = false;
                            fx_limit = false; fx_less = false; fx_frame = false; fx_sigpool = false;
                            fx_utf8 = false; fx_restore = false; fx_rehearse = false }

let set_cfg (toks : string list) =
  let get name =
    Stdlib.List.exists (fun t -> t = name ^ "=1") toks in
  cfg := { fx_hex = get "hex"; fx_sig = get "sig"; fx_key = get "key"; fx_parents = get "parents";
           fx_limit = get "limit"; fx_less = get "less"; fx_frame = get "frame"; fx_sigpool = get "sigpool";
           fx_utf8 = get "utf8"; fx_restore = get "restore"; fx_rehearse = get "rehearse" }

let hexv c = match c with
  | '0'..'9' -> Char.code c - 48
  | 'a'..'f' -> Char.code c - 87
  | 'A'..'F' -> Char.code c - 55
  | _ -> failwith "bad hex in token"

(* "s:<hex>" -> byte list *)
let bytes_of_tok (t : string) : coq_Z list =
  let n = Stdlib.String.length t in
  if n < 2 || (Stdlib.String.get t (0)) <> 's' || (Stdlib.String.get t (1)) <> ':' then failwith ("bad string token " ^ t);
  let rec go i acc =
    if i < 2 then acc
    else go (i - 2) (z_of_int (16 * hexv (Stdlib.String.get t (i - 1)) + hexv (Stdlib.String.get t (i))) :: acc) in
  go (n - 1) []

let tok_of_bytes (l : coq_Z list) : string =
  "s:" ^ Stdlib.String.concat "" (Stdlib.List.map (fun b -> Printf.sprintf "%02x" (int_of_z b)) l)

let b01 (t : string) : bool = (t = "1")
let zopt (t : string) : coq_Z option = if t = "nil" then None else Some (z_of_string t)
let str_zopt (o : coq_Z option) : string = match o with None -> "nil" | Some v -> string_of_z v

let rec split_arrow (l : string list) : string list * string list =
  match l with
  | [] -> ([], [])
  | "=>" :: r -> ([], r)
  | x :: r -> let (a, b) = split_arrow r in (x :: a, b)

let join = Stdlib.String.concat " "

let cls (f : 'a -> string) (o : 'a outcome) : string =
  match o with Ok a -> f a | Err -> "err" | Panic -> "panic" | Hang -> "hang"

let bool_res (o : bool outcome) : string = cls (fun b -> "ok " ^ string_of_int (b2i b)) o
let unit_res (o : unit outcome) : string = cls (fun _ -> "ok") o

(* take n items parsed by f from the token list *)
let rec take_n (n : int) (f : string list -> 'a * string list) (l : string list) : 'a list * string list =
  if n <= 0 then ([], l)
  else let (x, r) = f l in let (xs, r') = take_n (n - 1) f r in (x :: xs, r')

let parse_itx (l : string list) : itx * string list =
  match l with
  | k :: a :: m :: s :: v :: r ->
    ({ it_key = bytes_of_tok k; it_addr = bytes_of_tok a; it_moniker = bytes_of_tok m;
       it_sig = bytes_of_tok s; it_sigok = b01 v }, r)
  | _ -> failwith "bad itx"

let parse_str (l : string list) : coq_Z list * string list =
  match l with t :: r -> (bytes_of_tok t, r) | [] -> failwith "missing string"

let parse_peer (l : string list) : peer * string list =
  match l with
  | "nil" :: r -> (None, r)
  | t :: r -> (Some (bytes_of_tok t), r)
  | [] -> failwith "missing peer"

let parse_entry (l : string list) : pentry * string list =
  match l with
  | k :: m :: v :: s :: ok :: r ->
    ({ pe_known = b01 k; pe_member = b01 m; pe_validator = bytes_of_tok v; pe_sig = bytes_of_tok s; pe_sigok = b01 ok }, r)
  | _ -> failwith "bad pool entry"

let parse_fev (l : string list) : fev * string list =
  match l with
  | "n" :: r -> (FNil, r)
  | "c" :: r -> (FCoreNil (z_of_int 1), r)
  | t :: r when Stdlib.String.length t >= 2 && (Stdlib.String.get t (0)) = 'e' ->
    (FEv (z_of_int 1, z_of_string (Stdlib.String.sub t 1 (Stdlib.String.length t - 1)), [z_of_int 49; z_of_int 124; z_of_int 49]), r)
  | _ -> failwith "bad frame event"

let count (l : string list) : int * string list =
  match l with t :: r -> (int_of_string t, r) | [] -> failwith "missing count"

let expect (w : string) (l : string list) : string list =
  match l with t :: r when t = w -> r | _ -> failwith ("expected " ^ w)

let rec perms (l : 'a list) : 'a list list =
  match l with
  | [] -> [[]]
  | _ ->
    Stdlib.List.concat (Stdlib.List.mapi (fun i x ->
        let rest = Stdlib.List.filteri (fun j _ -> j <> i) l in
        Stdlib.List.map (fun p -> x :: p) (perms rest)) l)

(* the pool is a Go map: any iteration order is possible *)
let check_any check kind raw impl (models : string list) =
  if Stdlib.List.mem impl models then check kind raw impl impl
  else check kind raw impl (match models with m :: _ -> m ^ " (or a permutation)" | [] -> "?")

let fev_of (lt : string) (c : string) (sg : string) : fev =
  match c with
  | "1" -> FNil
  | "2" -> FCoreNil (z_of_string lt)
  | _ -> FEv (z_of_string lt, z_of_int 2, bytes_of_tok sg)

let handle check diff (toks : string list) (raw : string) : bool =
  match toks with
  | "C8F" :: rest -> set_cfg rest; true
  | "C8" :: helper :: rest ->
    let fx = !cfg in
    let (inp, obs) = split_arrow rest in
    let impl = join obs in
    let kind = "C8:" ^ helper in
    (match helper, inp with
     | "decode", [s] ->
       check kind raw impl
         (cls (fun (bs, ok) -> (if ok then "ok " else "err ") ^ tok_of_bytes bs) (decode_from_string fx (bytes_of_tok s)))
     | "sig", [s] ->
       check kind raw impl
         (cls (fun (r, sv) -> "ok " ^ str_zopt r ^ " " ^ str_zopt sv) (decode_signature fx (bytes_of_tok s)))
     | "pubkey", [s] ->
       check kind raw impl
         (match to_public_key fx (bytes_of_tok s) with KNil -> "nil" | KXYNil -> "xynil" | KPoint _ -> "point")
     | "verify", [pc; r; s; v] ->
       let pk = match pc with "nil" -> KNil | "xynil" -> KXYNil | _ -> KPoint (Z0, Z0) in
       check kind raw impl (bool_res (keys_verify fx pk (zopt r) (zopt s) (b01 v)))
     | "itxverify", l ->
       let (t, _) = parse_itx l in
       check kind raw impl (bool_res (itx_verify fx t))
     | "blockverify", [k; s; v] ->
       check kind raw impl (bool_res (block_verify fx (bytes_of_tok k) (bytes_of_tok s) (b01 v)))
     | "eventverify", l ->
       let (n, l) = count l in
       let (itxs, l) = take_n n parse_itx l in
       let (nb, l) = count l in
       let (bs, l) = take_n nb parse_str l in
       (match l with
        | [c; s; v] ->
          check kind raw impl (bool_res (event_verify fx itxs bs (bytes_of_tok c) (bytes_of_tok s) (b01 v)))
        | _ -> failwith "bad eventverify")
     | "parent", [w; n] ->
       check kind raw impl (unit_res (parent_at fx (z_of_string w) (z_of_string n)))
     | "peerid", [s] ->
       let k = bytes_of_tok s in
       check kind raw impl
         (match peer_id fx (Some k) with
          | Ok _ -> (match pub_key_bytes fx k with Ok bs -> "ok " ^ tok_of_bytes bs | _ -> "?")
          | o -> unit_res o)
     | "newpeerset", l ->
       let (n, l) = count l in
       let (ps, _) = take_n n parse_peer l in
       check kind raw impl (cls (fun _ -> "ok " ^ string_of_int n) (new_peer_set fx ps))
     | "getsigs", l ->
       let (n, l) = count l in
       let (ks, _) = take_n n parse_str l in
       check kind raw impl (cls (fun _ -> "ok " ^ string_of_int n) (get_signatures fx ks))
     | "setsig", [b] ->
       check kind raw impl (cls (fun n -> "ok " ^ string_of_z n) (set_signature (b01 b)))
     | "less", [lti; ci; si; ltj; cj; sj] ->
       check kind raw impl (bool_res (fe_less fx (fev_of lti ci si) (fev_of ltj cj sj)))
     | "frameroots", l ->
       let (n, l) = count l in
       let one_ev = FEv (z_of_int 1, z_of_int 2, []) in
       let root (l : string list) = match l with
         | "nil" :: r -> (None, r)
         | t :: r -> (Some (Stdlib.List.init (int_of_string t) (fun _ -> one_ev)), r)
         | [] -> failwith "missing root" in
       let (roots, _) = take_n n root l in
       check kind raw impl (cls (fun evs -> "ok " ^ string_of_int (Stdlib.List.length evs)) (collect_roots roots))
     | "framehash", l ->
       let (n, l) = count l in
       let (strs, _) = take_n n parse_str l in
       let r = Stdlib.List.fold_left (fun acc s -> bind acc (fun _ -> quote_str s)) (Ok ()) strs in
       check kind raw impl (unit_res r)
     | "sigpool", l ->
       let (n, l) = count l in
       let (es, _) = take_n n parse_entry l in
       let res p = let (o, rest) = process_sigpool fx p in
         (match o with
          | Panic -> "panic" | Hang -> "hang"
          | Err -> "err " ^ string_of_int (Stdlib.List.length rest)
          | Ok _ -> "ok " ^ string_of_int (Stdlib.List.length rest)) in
       check_any check kind raw impl (Stdlib.List.map res (perms es))
     | "syncreq", [st; lim; conf; d] ->
       check kind raw impl
         (cls (fun n -> "ok " ^ string_of_z n) (sync_request fx (z_of_string st) (z_of_string lim) (z_of_string conf) (z_of_string d)))
     | "joinreq", st :: l ->
       let (t, l) = parse_itx l in
       (match l with
        | [p] -> check kind raw impl (bool_res (join_request fx (z_of_string st) t (b01 p)))
        | _ -> failwith "bad joinreq")
     | "eager", st :: rd :: l ->
       let (n, l) = count l in
       let (itxs, l) = take_n n parse_itx l in
       let (nb, l) = count l in
       let (bs, l) = take_n nb parse_str l in
       (match l with
        | c :: s :: v :: rest_ok :: l ->
          let (k, l) = count l in
          let (es, _) = take_n k parse_entry l in
          let e = { we_read_ok = b01 rd; we_itxs = itxs; we_bsigs = bs; we_creator = bytes_of_tok c;
                    we_sig = bytes_of_tok s; we_sigok = b01 v; we_rest_ok = b01 rest_ok } in
          let res p = unit_res (fst (eager_sync fx (z_of_string st) e p)) in
          check_any check kind raw impl (Stdlib.List.map res (perms es))
        | _ -> failwith "bad eager")
     | "ffcheck", l ->
       let l = expect "P" l in
       let (np, l) = count l in
       let (ps, l) = take_n np parse_peer l in
       let l = expect "S" l in
       let (ns, l) = count l in
       let sig_entry (l : string list) = match l with
         | k :: m :: s :: v :: r -> ((((bytes_of_tok k, b01 m), bytes_of_tok s), b01 v), r)
         | _ -> failwith "bad block signature" in
       let (sigs, l) = take_n ns sig_entry l in
       let l = expect "T" l in
       let (trust, l) = count l in
       let l = expect "PH" l in
       let (ph, l) = count l in
       let l = expect "FH" l in
       let (fh, l) = count l in
       let l = expect "U" l in
       let (u, l) = count l in
       let l = expect "R" l in
       let (nr, l) = count l in
       let root (l : string list) = match l with
         | "nil" :: r -> (None, r)
         | t :: r -> let (evs, r') = take_n (int_of_string t) parse_fev r in (Some evs, r')
         | [] -> failwith "missing root" in
       let (roots, l) = take_n nr root l in
       let l = expect "E" l in
       let (ne, l) = count l in
       let (evs, l) = take_n ne parse_fev l in
       let l = expect "PS" l in
       let (nps, l) = count l in
       let pset (l : string list) = let (k, l) = count l in take_n k parse_peer l in
       let (psets, _) = take_n nps pset l in
       let f = { ff_peers = ps; ff_sigs = sigs; ff_trust = z_of_int trust; ff_peers_hash_ok = (ph = 1);
                 ff_frame_hash_ok = (fh = 1); ff_has_fffd = (u = 1); ff_roots = roots; ff_events = evs;
                 ff_peersets = psets; ff_insert_ok = true } in
       check kind raw impl (cls (fun _ -> "pass") (ff_check fx f))
     | _ -> diff kind raw impl "unparsed C8 line");
    true
  | _ -> false
