(* Driver: reads one case per line on stdin (as written by the Go harness, with
   the implementation's observation at the end of the line), evaluates the
   extracted model on the same input and prints one line per disagreement:
     DIFF <kind> <line-number> <input...> impl=<..> model=<..>
   and a final "DONE <cases> <diffs>". *)
open Datatypes
open BinNums
open BinInt
open Zutil

let cases = ref 0
let diffs = ref 0
let lineno = ref 0

let diff kind input impl model =
  incr diffs;
  if !diffs <= 200 then
    Printf.printf "DIFF %s line=%d %s impl=%s model=%s\n" kind !lineno input impl model

let check kind input impl model =
  incr cases;
  if impl <> model then diff kind input impl model

let handle (toks : string list) (raw : string) =
  match toks with
  | "Q" :: n :: sl :: smv :: tcv :: [] ->
    let nz = z_of_string n and slz = z_of_string sl in
    check "Q" raw (smv ^ " " ^ tcv)
      (string_of_z (Quorum.sm nz) ^ " " ^ string_of_z (Quorum.tc slz nz))
  | ("A" | "C") :: k :: n :: acc :: [] ->
    let nz = z_of_string n and kz = z_of_string k in
    check (Stdlib.List.hd toks) raw acc (string_of_int (b2i (Quorum.trusted kz nz nz)))
  | "O" :: rest -> Handlers.quorum_ops check raw rest
  | k :: _ -> Handlers.dispatch check diff k toks raw
  | [] -> ()

let () =
  (try
     while true do
       let l = input_line stdin in
       incr lineno;
       handle (split l) l
     done
   with End_of_file -> ());
  Printf.printf "W max-gap=%d table-insertions=%d at-or-below-last-round=%d gap-bound-exceeded=%d\n" !Hgdrv.w_max_gap !Hgdrv.w_insertions !Hgdrv.w_below !Hgdrv.w_gap_over;
  Printf.printf "DONE %d %d\n" !cases !diffs
