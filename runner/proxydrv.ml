(* Driver for the traces written by harness/cmd/proxy (trusted glue, C20).
     PX P <client> <method> <conn 0/1> <o1> <o2> <o3> <o4> => <ok|err> <accepted connections> <deliveries>
         o_i: df | cf0 | cf1 | to0 | to1 | ok          (network level)
              hok | hokn | herr | herrn | herre | herren  (the request passes; what the handler returned:
              ok / error / error with empty message; trailing n: the reply value is nil)
     PX J B <block> => <block as received>      PX J R <response> => <response as received>
     PX NP <key> <address> <moniker> => <PubKeyHex> <NetAddr> <Moniker>   peers.NewPeer on raw strings
   Other PX lines (C, S, T, U) carry the implementation-side comparison only and are ignored here. *)
open Zutil

let z = z_of_string
let zs = string_of_z
let join = Stdlib.String.concat " "
let map = Stdlib.List.map

(* replies are abstracted to: Some [] = a non-nil value, None = nil *)
let attempt_of (t : string) : BinNums.coq_Z list option Proxy.attempt = match t with
  | "df" -> Proxy.ADown
  | "cf0" -> Proxy.ADropReq
  | "cf1" -> Proxy.ADropReply
  | "to0" -> Proxy.AStallReq
  | "to1" -> Proxy.AStallReply
  | "ok" | "hok" -> Proxy.APass (Proxy.HOk (Some []))
  | "hokn" -> Proxy.APass (Proxy.HOk None)
  | "herr" -> Proxy.APass (Proxy.HErr (false, Some []))
  | "herrn" -> Proxy.APass (Proxy.HErr (false, None))
  | "herre" -> Proxy.APass (Proxy.HErr (true, Some []))
  | "herren" -> Proxy.APass (Proxy.HErr (true, None))
  | _ -> failwith ("bad outcome " ^ t)


(* ---- canonical text <-> model values ---- *)
let hexval c = match c with
  | '0' .. '9' -> Char.code c - 48 | 'a' .. 'f' -> Char.code c - 87 | 'A' .. 'F' -> Char.code c - 55
  | _ -> failwith "hex"
let bytes_of_tok (t : string) : Proxy.bytes =
  if t = "~" then None else begin
    if Stdlib.String.length t < 1 || (Stdlib.String.get t (0)) <> 'x' then failwith ("bad bytes " ^ t);
    let n = (Stdlib.String.length t - 1) / 2 in
    Some (Stdlib.List.init n (fun i -> z_of_int (16 * hexval (Stdlib.String.get t (1 + 2 * i)) + hexval (Stdlib.String.get t (2 + 2 * i)))))
  end
let tok_of_bytes (b : Proxy.bytes) : string = match b with
  | None -> "~"
  | Some l -> "x" ^ Stdlib.String.concat "" (map (fun v -> Printf.sprintf "%02x" (int_of_z v)) l)

let str_of_tok (t : string) : Proxy.gstr =
  if Stdlib.String.length t < 2 || Stdlib.String.sub t 0 2 <> "s:" then failwith ("bad string " ^ t);
  let body = Stdlib.String.sub t 2 (Stdlib.String.length t - 2) in
  if body = "" then [] else
    map (fun u ->
        let v = z (Stdlib.String.sub u 1 (Stdlib.String.length u - 1)) in
        if (Stdlib.String.get u (0)) = 'g' then Proxy.Good v else Proxy.Bad v) (Stdlib.String.split_on_char ',' body)
let tok_of_str (s : Proxy.gstr) : string =
  "s:" ^ Stdlib.String.concat "," (map (fun c -> match c with Proxy.Good v -> "g" ^ zs v | Proxy.Bad v -> "b" ^ zs v) s)

(* a tiny token-stream parser *)
let take (l : string list ref) : string =
  match !l with x :: r -> l := r; x | [] -> failwith "unexpected end of line"
let expect (l : string list ref) (s : string) = let x = take l in if x <> s then failwith ("expected " ^ s ^ " got " ^ x)
let counted (l : string list ref) (f : unit -> 'a) : 'a list option =
  let n = int_of_string (take l) in
  if n < 0 then None else Some (Stdlib.List.init n (fun _ -> f ()))

let parse_itx (l : string list ref) : Proxy.itx =
  let t = z (take l) in
  let net = str_of_tok (take l) in let key = str_of_tok (take l) in let mon = str_of_tok (take l) in
  let sg = str_of_tok (take l) in
  { Proxy.it_type = t; it_peer = { Proxy.p_net = net; p_key = key; p_mon = mon; p_id = z "0" }; it_sig = sg }
let parse_receipt (l : string list ref) : Proxy.receipt =
  let t = parse_itx l in let a = take l in { Proxy.rc_itx = t; rc_acc = (a = "1") }
let parse_receipts l = counted l (fun () -> parse_receipt l)

let parse_block (toks : string list) : Proxy.block =
  let l = ref toks in
  let idx = z (take l) in let rr = z (take l) in let ts = z (take l) in
  let sh = bytes_of_tok (take l) in let fh = bytes_of_tok (take l) in let ph = bytes_of_tok (take l) in
  expect l "T"; let txs = counted l (fun () -> bytes_of_tok (take l)) in
  expect l "I"; let itxs = counted l (fun () -> parse_itx l) in
  expect l "R"; let rcs = parse_receipts l in
  expect l "S"; let sigs = counted l (fun () -> let k = str_of_tok (take l) in let v = str_of_tok (take l) in (k, v)) in
  if !l <> [] then failwith "trailing tokens in block";
  { Proxy.bl_body = { Proxy.bo_index = idx; bo_rr = rr; bo_ts = ts; bo_state = sh; bo_frame = fh; bo_peers = ph;
                      bo_txs = txs; bo_itxs = itxs; bo_receipts = rcs };
    bl_sigs = sigs; bl_hash = None; bl_hex = []; bl_peerset = false }

let parse_cresp (toks : string list) : Proxy.cresp =
  let l = ref toks in
  let sh = bytes_of_tok (take l) in
  expect l "R"; let rcs = parse_receipts l in
  if !l <> [] then failwith "trailing tokens in response";
  { Proxy.cr_state = sh; cr_receipts = rcs }

let cnt f = function None -> "-1" | Some l -> join (string_of_int (Stdlib.List.length l) :: map f l)
let itx_str (t : Proxy.itx) =
  join [zs t.Proxy.it_type; tok_of_str t.Proxy.it_peer.Proxy.p_net; tok_of_str t.Proxy.it_peer.Proxy.p_key;
        tok_of_str t.Proxy.it_peer.Proxy.p_mon; tok_of_str t.Proxy.it_sig]
let receipt_str (r : Proxy.receipt) = itx_str r.Proxy.rc_itx ^ " " ^ (if r.Proxy.rc_acc then "1" else "0")
(* Go prints map entries sorted by key (byte order of the received key) *)
let sort_sigs l = Stdlib.List.sort (fun (a, _) (b, _) -> compare (tok_of_str a) (tok_of_str b)) l
let block_str (b : Proxy.block) =
  let bo = b.Proxy.bl_body in
  join [zs bo.Proxy.bo_index; zs bo.Proxy.bo_rr; zs bo.Proxy.bo_ts; tok_of_bytes bo.Proxy.bo_state;
        tok_of_bytes bo.Proxy.bo_frame; tok_of_bytes bo.Proxy.bo_peers;
        "T"; cnt tok_of_bytes bo.Proxy.bo_txs; "I"; cnt itx_str bo.Proxy.bo_itxs; "R"; cnt receipt_str bo.Proxy.bo_receipts;
        "S"; cnt (fun (k, v) -> tok_of_str k ^ " " ^ tok_of_str v) b.Proxy.bl_sigs]
let cresp_str (c : Proxy.cresp) =
  join [tok_of_bytes c.Proxy.cr_state; "R"; cnt receipt_str c.Proxy.cr_receipts]

let rec split_arrow (l : string list) : string list * string list =
  match l with
  | [] -> failwith "line without =>"
  | "=>" :: r -> ([], r)
  | x :: r -> let (a, b) = split_arrow r in (x :: a, b)

(* compare modulo the order of map entries: re-parse and re-print both sides *)
let handle check diff (toks : string list) (raw : string) : bool =
  match toks with
  | "PX" :: "P" :: _client :: _meth :: conn :: rest ->
    let (outs, res) = split_arrow rest in
    let r = Proxy.call_attempts Proxy.bytes_null Proxy.bytes_denull (conn = "1") (map attempt_of outs) in
    let m = join [(match r.Proxy.c_result with Some _ -> "ok" | None -> "err");
                  string_of_int (int_of_nat r.Proxy.c_dials); string_of_int (int_of_nat r.Proxy.c_deliveries)] in
    check "PX-P" (if Stdlib.String.length raw > 300 then Stdlib.String.sub raw 0 300 else raw) (join res) m; true
  | "PX" :: "J" :: "B" :: rest ->
    let (sent, recv) = split_arrow rest in
    let short = if Stdlib.String.length raw > 200 then Stdlib.String.sub raw 0 200 else raw in
    let norm (b : Proxy.block) = { b with Proxy.bl_sigs = (match b.Proxy.bl_sigs with None -> None | Some l -> Some (sort_sigs l)) } in
    (match Proxy.through_block (parse_block sent) with
     | None -> diff "PX-J" short "decoded" "model decoder rejects its own encoding"
     | Some b -> check "PX-J" short (block_str (norm (parse_block recv))) (block_str (norm b))); true
  | "PX" :: "J" :: "R" :: rest ->
    let (sent, recv) = split_arrow rest in
    let short = if Stdlib.String.length raw > 200 then Stdlib.String.sub raw 0 200 else raw in
    (match Proxy.through_cresp (parse_cresp sent) with
     | None -> diff "PX-J" short "decoded" "model decoder rejects its own encoding"
     | Some c -> check "PX-J" short (cresp_str (parse_cresp recv)) (cresp_str c)); true
  | "PX" :: "NP" :: k :: n :: m :: "=>" :: k' :: n' :: m' :: [] ->
    let p = Proxy.new_peer (str_of_tok k) (str_of_tok n) (str_of_tok m) in
    check "PX-NP" raw (join [k'; n'; m'])
      (join [tok_of_str p.Proxy.p_key; tok_of_str p.Proxy.p_net; tok_of_str p.Proxy.p_mon]); true
  | "PX" :: _ -> true
  | _ -> false
