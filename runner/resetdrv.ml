(* Driver for the fast-forward trace line of harness/cmd/sim -ff (trusted glue).

   R <victim> <server> B <index> <rr> <ts> <bodyid> <committed> T <n> tx..  X <n> {id add pid pkey sigok accept}..
       G <n> {validator over}..
     FR <round> <ts> P <n> pid:ord.. PS <k> {<round> <n> pid:ord..}.. EV <n> id:r:lt:w.. ROOTS <m> {<ord> <n> id:r:lt:w..}..
     CORES <n> <event line>.. => ok|err

   The block and the frame are the ones the victim received (after the JSON transport).  The driver
     1. compares them with what the MODEL of the serving node answers (anchor_block_with_frame on the
        server model state): block body + signatures (check RB), frame (check RF), cores (check RC);
     2. runs node_fast_forward on the victim model state from the RECEIVED data (check R: ok/err);
     3. forgets the victim shadow of printed observables except the delivered blocks (keys d..) and the
        transaction pool (pl), as hx.Node.ResetTracked does on the other side: every later K line
        compares the reset node like any other node. *)
open Datatypes
open BinNums
open Zutil
open HgImpl
open Hgdrv

let expect tag = function t :: r when t = tag -> r | t :: _ -> failwith ("expected " ^ tag ^ " got " ^ t) | [] -> failwith ("expected " ^ tag)
let num = function t :: r -> (int_of_string t, r) | [] -> failwith "number"
let zn = function t :: r -> (z_of_string t, r) | [] -> failwith "znumber"

let peer_of (t : string) : Quorum.peer =
  match Stdlib.String.split_on_char ':' t with
  | [pid; ord] -> { Quorum.pid = z_of_string pid; pkey = z_of_string ord }
  | _ -> failwith ("peer " ^ t)

let fe_of (t : string) : frameev =
  match Stdlib.String.split_on_char ':' t with
  | [id; r; lt; w] -> { fe_id = z_of_string id; fe_round = z_of_string r; fe_lt = z_of_string lt; fe_wit = (w = "1") }
  | _ -> failwith ("frame event " ^ t)

let rec repeat n f rest = if n = 0 then ([], rest) else
    let (x, rest) = f rest in let (xs, rest) = repeat (n - 1) f rest in (x :: xs, rest)

let parse_frame rest : frame * string list =
  let rest = expect "FR" rest in
  let (round, rest) = zn rest in
  let (ts, rest) = zn rest in
  let rest = expect "P" rest in
  let (np, rest) = num rest in
  let (ps, rest) = take_n np rest in
  let rest = expect "PS" rest in
  let (k, rest) = num rest in
  let (psets, rest) = repeat k (fun rest ->
      let (r, rest) = zn rest in let (n, rest) = num rest in let (l, rest) = take_n n rest in
      ((r, map peer_of l), rest)) rest in
  let rest = expect "EV" rest in
  let (ne, rest) = num rest in
  let (evs, rest) = take_n ne rest in
  let rest = expect "ROOTS" rest in
  let (m, rest) = num rest in
  let (roots, rest) = repeat m (fun rest ->
      let (c, rest) = zn rest in let (n, rest) = num rest in let (l, rest) = take_n n rest in
      ((c, map fe_of l), rest)) rest in
  ({ f_round = round; f_peers = map peer_of ps; f_roots = sort_by (fun (c, _) -> int_of_z c) roots;
     f_events = map fe_of evs; f_peersets = sort_by (fun (r, _) -> int_of_z r) psets; f_ts = ts }, rest)

let parse_block rest : (frame -> block) * string list =
  let rest = expect "B" rest in
  let (index, rest) = zn rest in
  let (rr, rest) = zn rest in
  let (ts, rest) = zn rest in
  let (bodyid, rest) = zn rest in
  let (committed, rest) = num rest in
  let rest = expect "T" rest in
  let (nt, rest) = num rest in
  let (txs, rest) = take_n nt rest in
  let rest = expect "X" rest in
  let (nx, rest) = num rest in
  let (itxs, rest) = repeat nx (fun rest -> match rest with
      | i :: add :: pid :: pkey :: sok :: acc :: r ->
        ({ itx_id = z_of_string i; itx_add = (add = "1");
           itx_peer = { Quorum.pid = z_of_string pid; pkey = z_of_string pkey };
           itx_sigok = (sok = "1"); itx_accept = (acc = "1") }, r)
      | _ -> failwith "block itx") rest in
  let rest = expect "G" rest in
  let (ng, rest) = num rest in
  let (sigs, rest) = repeat ng (fun rest -> match rest with
      | v :: o :: r -> ((z_of_string v, z_of_string o), r) | _ -> failwith "block sig") rest in
  ((fun (f : frame) ->
      { b_index = index; b_rr = rr; b_ts = ts; b_txs = map z_of_string txs; b_itxs = itxs; b_frame = f;
        b_peers = f.f_peers; b_committed = (committed = 1);
        b_receipts = map (fun (t : itx) -> (t.itx_id, t.itx_accept)) itxs; b_bodyid = bodyid; b_sigs = sigs }), rest)

let block_str (b : block) =
  let sg = sort_by (fun (v, _) -> int_of_z v) b.b_sigs in
  body_str b true ^ " C " ^ b2s b.b_committed ^ " G" ^
  Stdlib.String.concat "" (map (fun (v, o) -> Printf.sprintf " %s:%s" (zs v) (zs o)) sg) ^
  " F " ^ frame_digest b.b_frame ^ " BP " ^ peers_str b.b_peers

let full_peers_str (ps : Quorum.peerset) =
  Stdlib.String.concat "," (map (fun (p : Quorum.peer) -> zs p.Quorum.pid ^ ":" ^ zs p.Quorum.pkey) ps)

(* frame digest + peer identifiers (the digest prints key ordinals only) *)
let frame_str (f : frame) =
  frame_digest f ^ " IDS " ^ full_peers_str f.f_peers ^
  Stdlib.String.concat "" (map (fun (r, ps) -> Printf.sprintf " %s=%s" (zs r) (full_peers_str ps)) f.f_peersets)

let event_str (e : event) =
  Printf.sprintf "%s %s %s %s %s %s %s %s T%s X%s S%s" (zs e.e_id) (zs e.e_creator) (zs e.e_index) (zs e.e_sp) (zs e.e_op)
    (zs e.e_ts) (b2s e.e_coin) (zs e.e_sigkey)
    (Stdlib.String.concat "" (map (fun t -> " " ^ zs t) e.e_txs))
    (Stdlib.String.concat "" (map (fun (t : itx) -> Printf.sprintf " %s:%s:%s:%s:%s:%s" (zs t.itx_id) (b2s t.itx_add)
                                      (zs t.itx_peer.Quorum.pid) (zs t.itx_peer.Quorum.pkey) (b2s t.itx_sigok) (b2s t.itx_accept)) e.e_itxs))
    (Stdlib.String.concat "" (map (fun (s : bsig) -> Printf.sprintf " %s:%s:%s" (zs s.bs_validator) (zs s.bs_index) (zs s.bs_over)) e.e_sigs))

let cores_str (l : event list) =
  Stdlib.String.concat " | " (map event_str (sort_by (fun (e : event) -> int_of_z e.e_id) l))

let resets = ref 0

let handle check diff (toks : string list) (raw : string) : bool =
  match toks with
  | "R" :: vid :: _ when Hashtbl.mem dead vid -> true
  | "R" :: vid :: sid :: rest ->
    let short = Printf.sprintf "R %s %s" vid sid in
    let victim = node_of vid in
    let (mkblock, rest) = parse_block rest in
    let (f, rest) = parse_frame rest in
    let b = mkblock f in
    let rest = expect "CORES" rest in
    let (nc, rest) = num rest in
    let (cores, rest) = repeat nc (fun rest -> parse_event rest) rest in
    let impl_ok = match rest with "=>" :: r :: _ -> r | _ -> "?" in
    (* 1. the serving node's model answers the same block / frame / cores *)
    if not (Hashtbl.mem dead sid) then begin
      let server = node_of sid in
      match HgReset.anchor_block_with_frame server.st with
      | (None, _) -> diff "RB" short (block_str b) "model server has no anchor block / frame"
      | (Some ((mb, mf), mcores), s') ->
        server.st <- s';
        check "RB" short (block_str b) (block_str mb);
        check "RF" short (frame_str f) (frame_str mf);
        check "RC" short (cores_str cores) (cores_str mcores)
    end;
    (* the hypothesis of the reset-state theorems (C13_reset_state / _dag / _validators), evaluated on the received frame *)
    check "RS" short "true" (if HgReset.frame_shapeb f then "true" else "false");
    (* the premises of the after-reset theorems (C13_after_reset_checked) that can be read off the received data *)
    check "RP" short "true" (if HgReset.after_reset_premisesb b f cores then "true" else "false");
    (* 2. reset the victim's model from the received data *)
    let (ok, st') = HgReset.node_fast_forward victim.st b f cores in
    victim.st <- st';
    (* core.fastForward ends with setHeadAndSeq *)
    (let (hd, sq) = Recovery.head_seq st' in
     victim.core <- { victim.core with CoreModel.c_head = hd; CoreModel.c_seq = sq });
    check "R" short impl_ok (if ok then "ok" else "err");
    incr resets;
    Hashtbl.replace reset_nodes vid ();
    (* 3. forget the shadow of the observables that a reset wipes *)
    let keep k = Stdlib.String.length k > 0 && (Stdlib.String.get k 0 = 'd' || k = "pl") in
    let gone = Hashtbl.fold (fun k _ acc -> if keep k then acc else k :: acc) victim.shadow [] in
    Stdlib.List.iter (Hashtbl.remove victim.shadow) gone;
    true
  | _ -> false
