(* Driver for the store traces written by harness/cmd/store (trusted glue, C16).
   One extracted Store.bstore per sequence id.  Line syntax:
     S <seq> <cache> NEW <D|U>
     S <seq> <cache> <op tokens> => <result tokens>
   op tokens:     AddP c | SetEvent id c idx topo payload | GetEvent id | PEvents c skip
                  | PEvent c idx | LastFrom c | Known | SetBlock idx payload | GetBlock i
                  | LastBlock | SetRound r p | GetRound r | SetFrame r p | GetFrame r
                  | DbRound r | DbFrame r | DbTopo start count | Reopen
   result tokens: Unit | Err <kind> | Event id c idx topo payload | Ids x.. | Id x
                  | Known c:last.. | Block idx payload | Z z | Events id:c:idx:topo:payload..
   W / V / Z lines (oracle verdicts and statistics of the harness) are accepted and ignored. *)
open Zutil

let states : (string, Store.bstore) Hashtbl.t = Hashtbl.create 64

let zs = string_of_z
let z = z_of_string
let join = Stdlib.String.concat " "
let map = Stdlib.List.map

let err_str (e : Store.serr) = match e with
  | Store.KeyNotFound -> "KeyNotFound" | Store.TooLate -> "TooLate"
  | Store.SkippedIndex -> "SkippedIndex" | Store.UnknownParticipant -> "UnknownParticipant"
  | Store.Empty -> "Empty" | Store.PassedIndex -> "PassedIndex"
  | Store.KeyAlreadyExists -> "KeyAlreadyExists"

let ev_fields (e : Store.event) =
  [zs e.Store.ev_id; zs e.Store.ev_creator; zs e.Store.ev_index; zs e.Store.ev_topo; zs e.Store.ev_payload]

let res_str (r : Store.sres) : string = match r with
  | Store.RUnit -> "Unit"
  | Store.RErr e -> "Err " ^ err_str e
  | Store.REvent e -> join ("Event" :: ev_fields e)
  | Store.RIds l -> join ("Ids" :: map zs l)
  | Store.RId x -> "Id " ^ zs x
  | Store.RKnown l -> join ("Known" :: map (fun (c, i) -> zs c ^ ":" ^ zs i) l)
  | Store.RBlock b -> join ["Block"; zs b.Store.bl_index; zs b.Store.bl_payload]
  | Store.RZ x -> "Z " ^ zs x
  | Store.REvents l -> join ("Events" :: map (fun e -> Stdlib.String.concat ":" (ev_fields e)) l)

let parse_op (t : string list) : Store.sop = match t with
  | ["AddP"; c] -> Store.OAddParticipant (z c)
  | ["SetEvent"; id; c; i; tp; p] ->
    Store.OSetEvent { Store.ev_id = z id; ev_creator = z c; ev_index = z i; ev_topo = z tp; ev_payload = z p }
  | ["GetEvent"; id] -> Store.OGetEvent (z id)
  | ["PEvents"; c; s] -> Store.OParticipantEvents (z c, z s)
  | ["PEvent"; c; i] -> Store.OParticipantEvent (z c, z i)
  | ["LastFrom"; c] -> Store.OLastEventFrom (z c)
  | ["Known"] -> Store.OKnownEvents
  | ["SetBlock"; i; p] -> Store.OSetBlock { Store.bl_index = z i; bl_payload = z p }
  | ["GetBlock"; i] -> Store.OGetBlock (z i)
  | ["LastBlock"] -> Store.OLastBlockIndex
  | ["SetRound"; r; p] -> Store.OSetRound (z r, z p)
  | ["GetRound"; r] -> Store.OGetRound (z r)
  | ["SetFrame"; r; p] -> Store.OSetFrame (z r, z p)
  | ["GetFrame"; r] -> Store.OGetFrame (z r)
  | ["DbRound"; r] -> Store.ODbGetRound (z r)
  | ["DbFrame"; r] -> Store.ODbGetFrame (z r)
  | ["DbTopo"; s; c] -> Store.ODbTopological (z s, z c)
  | ["Reopen"] -> Store.OReopen
  | _ -> failwith ("bad store op: " ^ join t)

let rec split_arrow (l : string list) : string list * string list =
  match l with
  | [] -> failwith "store line without =>"
  | "=>" :: r -> ([], r)
  | x :: r -> let (a, b) = split_arrow r in (x :: a, b)

let handle check diff (toks : string list) (raw : string) : bool =
  match toks with
  | "S" :: seq :: cs :: "NEW" :: _ ->
    Hashtbl.replace states seq (Store.binit (z cs)); true
  | "S" :: seq :: _ :: rest ->
    (match Hashtbl.find_opt states seq with
     | None -> diff "S" raw "operation" "no NEW line for this sequence"; true
     | Some st ->
       let (opt, rest') = split_arrow rest in
       let (st', r) = Store.bstep st (parse_op opt) in
       Hashtbl.replace states seq st';
       check "S" raw (join rest') (res_str r); true)
  | "W" :: _ -> true
  | _ -> false
