(* Driver for the C15 cases written by harness/cmd/wire (trusted glue).  Token grammar: see
   harness/cmd/wire/tokens.go.  Every line starts with the token "C15":
     C15 W setwire <store> | <event>      => cid opcid spi opi | ERR cls
     C15 W towire <event>                 => <wevent>
     C15 W read <path> <store> | <event>  => <event> h v | ERR cls     (path: mem json tcps tcpe)
     C15 W readw <path> <store> | <wevent> => <event> | ERR cls         (tampered wire events)
     C15 D <path> <event>                 => <event> h v
     C15 I <path> <itx>                   => <itx> h v
     C15 B <path> <block> v<k>/<n>        => <block> b h v<k>/<n>       (path: marshal badger tcp mem)
     C15 F <path> <frame>                 => <frame> h | HANG0 | HANG1 | ERR
     C15 C <frame> | <frame>              => same<b> | HANG
     C15 R <path> <store> | L<k> (str(hash) fevent)*k => (cid opcid spi opi topo round lamport)*k | ERR
                                          Hashgraph.Reset: InsertFrameEvent of the frame events in order
     C15 T itx|event|frame <object>       => ok | bad       text validation (only printed when /repo has it)
   W read / D / I inputs end with v<0|1>: Verify() of the original object.
   Atoms: h<n> / g<n> abbreviate the string of the preceding line `C15 A h<n> s<code points>`; the model
   sees the real strings.  Bytes atom k<n> (a public key) is the one-element list [1000+n]. *)
open Zutil
module W = Wire

type stream = { mutable toks : string list }

let next s = match s.toks with t :: r -> s.toks <- r; t | [] -> failwith "C15: unexpected end of line"
let expect s x = let t = next s in if t <> x then failwith ("C15: expected " ^ x ^ " got " ^ t)
let tail t = Stdlib.String.sub t 1 (Stdlib.String.length t - 1)

let zi = z_of_int
let p_int s = z_of_string (next s)
let p_optint s = let t = next s in if t = "-" then None else Some (z_of_string t)

(* atoms: abbreviations defined by `C15 A <tok> s<code points>` lines *)
let atom_def : (string, BinNums.coq_Z list) Hashtbl.t = Hashtbl.create 4096
let atom_tok : (int list, string) Hashtbl.t = Hashtbl.create 4096

let lit_str t =
  if Stdlib.String.length t = 1 then []
  else Stdlib.List.map z_of_string (Stdlib.String.split_on_char '.' (tail t))

let p_str s =
  let t = next s in
  match Stdlib.String.get t 0 with
  | 'h' | 'g' -> (match Hashtbl.find_opt atom_def t with
      | Some l -> l
      | None -> failwith ("C15: undefined atom " ^ t))
  | 's' -> lit_str t
  | _ -> failwith ("C15: bad string token " ^ t)

let hexv c = match c with
  | '0' .. '9' -> Char.code c - 48 | 'a' .. 'f' -> Char.code c - 87 | _ -> failwith "C15: bad hex"

let p_bytes s =
  let t = next s in
  match Stdlib.String.get t 0 with
  | 'n' -> None
  | 'k' -> Some [zi (1000 + int_of_string (tail t))]
  | 'x' ->
    let n = (Stdlib.String.length t - 1) / 2 in
    let rec go i acc = if i < 0 then acc else go (i - 1) (zi (16 * hexv (Stdlib.String.get t (1 + 2 * i)) + hexv (Stdlib.String.get t (2 + 2 * i))) :: acc) in
    Some (go (n - 1) [])
  | _ -> failwith ("C15: bad bytes token " ^ t)

let p_items f s k =
  let rec go i acc = if i = 0 then Stdlib.List.rev acc else let x = f s in go (i - 1) (x :: acc) in
  go k []

let p_list f s =
  let t = next s in
  if t = "N" then None
  else if Stdlib.String.get t 0 = 'L' then Some (p_items f s (int_of_string (tail t)))
  else failwith ("C15: bad list header " ^ t)

let p_peer s =
  let a = p_str s in let k = p_str s in let m = p_str s in
  { W.p_addr = a; p_pub = k; p_moniker = m }
let p_ptr f s = let t = next s in if t = "-" then None else Some (f s)
let p_itx s =
  let ty = p_int s in let p = p_peer s in let sg = p_str s in
  { W.it_type = ty; it_peer = p; it_sig = sg }
let p_receipt s = let t = p_itx s in let a = p_int s in { W.rc_itx = t; rc_accepted = (a <> zi 0) }
let p_bsig s =
  let v = p_bytes s in let i = p_int s in let sg = p_str s in
  { W.bs_validator = v; bs_index = i; bs_sig = sg }
let p_wbsig s = let i = p_int s in let sg = p_str s in { W.wbs_index = i; wbs_sig = sg }
let p_coord s = let k = p_str s in let h = p_str s in let i = p_int s in (k, (h, i))

let p_event s =
  let txs = p_list p_bytes s in
  let itxs = p_list p_itx s in
  let ps = p_list p_str s in
  let c = p_bytes s in
  let i = p_int s in
  let bs = p_list p_bsig s in
  let ts = p_int s in
  let cid = p_int s in let opcid = p_int s in let spi = p_int s in let opi = p_int s in
  let sg = p_str s in
  let topo = p_int s in
  let r = p_optint s in let l = p_optint s in let rr = p_optint s in
  let la = p_list p_coord s in let fd = p_list p_coord s in
  { W.e_body = { W.b_txs = txs; b_itxs = itxs; b_parents = ps; b_creator = c; b_index = i; b_bsigs = bs; b_ts = ts;
                 b_cid = cid; b_opcid = opcid; b_spi = spi; b_opi = opi };
    e_sig = sg; e_topo = topo; e_round = r; e_lamport = l; e_rr = rr; e_last = la; e_first = fd; e_hexc = None }

let p_wevent s =
  let txs = p_list p_bytes s in
  let itxs = p_list p_itx s in
  let bs = p_list p_wbsig s in
  let cid = p_int s in let opcid = p_int s in let i = p_int s in
  let spi = p_int s in let opi = p_int s in let ts = p_int s in
  let sg = p_str s in
  { W.w_txs = txs; w_itxs = itxs; w_bsigs = bs; w_cid = cid; w_opcid = opcid; w_index = i; w_spi = spi;
    w_opi = opi; w_ts = ts; w_sig = sg }

let p_fevent s =
  expect s "F";
  let core = (let t = next s in if t = "-" then None else (if t <> "E" then failwith "C15: expected E"; Some (p_event s))) in
  let r = p_int s in let l = p_int s in let w = p_int s in
  { W.fe_core = core; fe_round = r; fe_lamport = l; fe_witness = (w <> zi 0) }
let p_feventptr s = match s.toks with "-" :: r -> s.toks <- r; None | _ -> Some (p_fevent s)
let p_rootptr s =
  let t = next s in
  if t = "-" then None else (if t <> "R" then failwith "C15: expected R"; Some { W.r_events = p_list p_feventptr s })
let p_peerptr s = let t = next s in if t = "-" then None else (if t <> "P" then failwith "C15: expected P"; Some (p_peer s))

let p_frame s =
  let r = p_int s in
  let ps = p_list p_peerptr s in
  let roots = p_list (fun s -> let k = p_str s in let v = p_rootptr s in (k, v)) s in
  let evs = p_list p_feventptr s in
  let pss = p_list (fun s -> let k = p_int s in let v = p_list p_peerptr s in (k, v)) s in
  let ts = p_int s in
  { W.f_round = r; f_peers = ps; f_roots = roots; f_events = evs; f_psets = pss; f_ts = ts }

let p_block s =
  let i = p_int s in let rr = p_int s in let ts = p_int s in
  let sh = p_bytes s in let fh = p_bytes s in let ph = p_bytes s in
  let txs = p_list p_bytes s in let itxs = p_list p_itx s in let rcs = p_list p_receipt s in
  let sigs = p_list (fun s -> let k = p_str s in let v = p_str s in (k, v)) s in
  { W.bl_body = { W.bb_index = i; bb_rr = rr; bb_ts = ts; bb_state = sh; bb_frame = fh; bb_peers = ph;
                  bb_txs = txs; bb_itxs = itxs; bb_receipts = rcs };
    bl_sigs = sigs }

let p_store s =
  let rep = p_list (fun s -> let id = p_int s in match p_bytes s with Some k -> (id, k) | None -> (id, [])) s in
  let pe = p_list (fun s -> let id = p_int s in let i = p_int s in let h = p_str s in ((id, i), h)) s in
  let ev = p_list (fun s -> let h = p_str s in let c = p_bytes s in let i = p_int s in
                    (h, ((match c with Some k -> k | None -> []), i))) s in
  let u = function Some l -> l | None -> [] in
  { W.ws_rep = u rep; ws_pe = u pe; ws_ev = u ev }

(* ---- printers ---- *)

let buf = Buffer.create 65536
let tok t = if Buffer.length buf > 0 then Buffer.add_char buf ' '; Buffer.add_string buf t
let o_int x = tok (string_of_z x)
let o_optint = function None -> tok "-" | Some x -> o_int x
let o_str (l : BinNums.coq_Z list) =
  match (if l = [] then None else Hashtbl.find_opt atom_tok (Stdlib.List.map int_of_z l)) with
  | Some t -> tok t
  | None -> tok ("s" ^ Stdlib.String.concat "." (Stdlib.List.map string_of_z l))
let o_bytes = function
  | None -> tok "n"
  | Some [a] when int_of_z a >= 1000 -> tok ("k" ^ string_of_int (int_of_z a - 1000))
  | Some l ->
    let b = Buffer.create (2 * Stdlib.List.length l + 1) in
    Buffer.add_char b 'x';
    Stdlib.List.iter (fun x -> Buffer.add_string b (Printf.sprintf "%02x" (int_of_z x))) l;
    tok (Buffer.contents b)
let o_list f = function
  | None -> tok "N"
  | Some l -> tok ("L" ^ string_of_int (Stdlib.List.length l)); Stdlib.List.iter f l
let o_peer (p : W.peer) = o_str p.W.p_addr; o_str p.W.p_pub; o_str p.W.p_moniker
let o_peerptr = function None -> tok "-" | Some p -> tok "P"; o_peer p
let o_itx (t : W.itx) = o_int t.W.it_type; o_peer t.W.it_peer; o_str t.W.it_sig
let o_receipt (r : W.receipt) = o_itx r.W.rc_itx; tok (if r.W.rc_accepted then "1" else "0")
let o_bsig (b : W.bsig) = o_bytes b.W.bs_validator; o_int b.W.bs_index; o_str b.W.bs_sig
let o_wbsig (b : W.wbsig) = o_int b.W.wbs_index; o_str b.W.wbs_sig
let o_coord (k, (h, i)) = o_str k; o_str h; o_int i
let o_event (e : W.event) =
  let b = e.W.e_body in
  o_list o_bytes b.W.b_txs; o_list o_itx b.W.b_itxs; o_list o_str b.W.b_parents; o_bytes b.W.b_creator;
  o_int b.W.b_index; o_list o_bsig b.W.b_bsigs; o_int b.W.b_ts;
  o_int b.W.b_cid; o_int b.W.b_opcid; o_int b.W.b_spi; o_int b.W.b_opi;
  o_str e.W.e_sig; o_int e.W.e_topo; o_optint e.W.e_round; o_optint e.W.e_lamport; o_optint e.W.e_rr;
  o_list o_coord e.W.e_last; o_list o_coord e.W.e_first
let o_wevent (w : W.wevent) =
  o_list o_bytes w.W.w_txs; o_list o_itx w.W.w_itxs; o_list o_wbsig w.W.w_bsigs;
  o_int w.W.w_cid; o_int w.W.w_opcid; o_int w.W.w_index; o_int w.W.w_spi; o_int w.W.w_opi; o_int w.W.w_ts;
  o_str w.W.w_sig
let o_feventptr = function
  | None -> tok "-"
  | Some (fe : W.fevent) ->
    tok "F";
    (match fe.W.fe_core with None -> tok "-" | Some e -> tok "E"; o_event e);
    o_int fe.W.fe_round; o_int fe.W.fe_lamport; tok (if fe.W.fe_witness then "1" else "0")
let o_rootptr = function None -> tok "-" | Some (r : W.root) -> tok "R"; o_list o_feventptr r.W.r_events
let o_frame (f : W.frame) =
  o_int f.W.f_round; o_list o_peerptr f.W.f_peers;
  o_list (fun (k, v) -> o_str k; o_rootptr v) f.W.f_roots;
  o_list o_feventptr f.W.f_events;
  o_list (fun (k, v) -> o_int k; o_list o_peerptr v) f.W.f_psets;
  o_int f.W.f_ts
let o_block (b : W.block) =
  let bb = b.W.bl_body in
  o_int bb.W.bb_index; o_int bb.W.bb_rr; o_int bb.W.bb_ts;
  o_bytes bb.W.bb_state; o_bytes bb.W.bb_frame; o_bytes bb.W.bb_peers;
  o_list o_bytes bb.W.bb_txs; o_list o_itx bb.W.bb_itxs; o_list o_receipt bb.W.bb_receipts;
  o_list (fun (k, v) -> o_str k; o_str v) b.W.bl_sigs

let err_str = function
  | W.ECreator -> "creator-not-found" | W.ESelfParent -> "selfparent-not-found"
  | W.EOpCreator -> "opcreator-not-found" | W.EOtherParent -> "otherparent-not-found"
  | W.ENoParents -> "no-parents"

let bit b = if b then "1" else "0"
let result f = Buffer.clear buf; f (); Buffer.contents buf

let rec split_arrow (l : string list) : string list * string list =
  match l with
  | [] -> failwith "C15 line without =>"
  | "=>" :: r -> ([], r)
  | x :: r -> let (a, b) = split_arrow r in (x :: a, b)

let handle check diff (toks : string list) (raw : string) : bool =
  match toks with
  | "C15" :: "A" :: t :: [c] ->
    let l = lit_str c in
    Hashtbl.replace atom_def t l;
    Hashtbl.replace atom_tok (Stdlib.List.map int_of_z l) t;
    true
  | "C15" :: rest ->
    let (inp, impl) = split_arrow rest in
    let impl = Stdlib.String.concat " " impl in
    let s = { toks = inp } in
    let kind = next s in
    let short = if Stdlib.String.length raw > 300 then Stdlib.String.sub raw 0 300 ^ "..." else raw in
    let model =
      try
        (match kind with
         | "W" ->
           (match next s with
            | "setwire" ->
              let st = p_store s in expect s "|";
              let e = p_event s in
              (match W.set_wire_info st e with
               | Datatypes.Coq_inl er -> "ERR " ^ err_str er
               | Datatypes.Coq_inr e' ->
                 let b = e'.W.e_body in
                 result (fun () -> o_int b.W.b_cid; o_int b.W.b_opcid; o_int b.W.b_spi; o_int b.W.b_opi))
            | "towire" -> let e = p_event s in result (fun () -> o_wevent (W.to_wire e))
            | "read" ->
              let path = next s in
              let st = p_store s in expect s "|";
              let e = p_event s in
              let vb = (next s = "v1") in
              (match W.wire_rt (path <> "mem") st e with
               | None -> "DECODE-ERROR"
               | Some (Datatypes.Coq_inl er) -> "ERR " ^ err_str er
               | Some (Datatypes.Coq_inr e') ->
                 result (fun () -> o_event e'; tok ("h" ^ bit (W.same_event_hash e e'));
                          tok ("v" ^ bit (vb && W.verify_preserved e e'))))
            | "readw" ->
              let path = next s in
              let st = p_store s in expect s "|";
              let w = p_wevent s in
              let w' = if path = "mem" then Some w else W.json_rt_wevent w in
              (match w' with
               | None -> "DECODE-ERROR"
               | Some w' ->
                 (match W.read_wire st w' with
                  | Datatypes.Coq_inl er -> "ERR " ^ err_str er
                  | Datatypes.Coq_inr e' -> result (fun () -> o_event e')))
            | k -> failwith ("C15: unknown W kind " ^ k))
         | "D" ->
           let _path = next s in
           let e = p_event s in
           let vb = (next s = "v1") in
           (match W.db_rt e with
            | None -> "DECODE-ERROR"
            | Some e' -> result (fun () -> o_event e'; tok ("h" ^ bit (W.same_event_hash e e'));
                                  tok ("v" ^ bit (vb && W.verify_preserved e e'))))
         | "I" ->
           let _path = next s in
           let t = p_itx s in
           let vb = (next s = "v1") in
           (match W.json_rt_itx t with
            | None -> "DECODE-ERROR"
            | Some t' ->
              let h = W.same_itx_hash t t' in
              result (fun () -> o_itx t'; tok ("h" ^ bit h); tok ("v" ^ bit (vb && h && t.W.it_sig = t'.W.it_sig))))
         | "B" ->
           let path = next s in
           let b = p_block s in
           let v = next s in
           let k0 = Scanf.sscanf v "v%d/%d" (fun k _ -> k) in
           let b' = if path = "mem" then Some (W.view_block b) else W.json_rt_block b in
           (match b' with
            | None -> "DECODE-ERROR"
            | Some b' ->
              let bs = W.same_body_hash b b' in
              let n1 = match b'.W.bl_sigs with None -> 0 | Some l -> Stdlib.List.length l in
              result (fun () -> o_block b'; tok ("b" ^ bit bs); tok ("h" ^ bit (W.same_block_hash b b'));
                       tok (Printf.sprintf "v%d/%d" (if bs then k0 else 0) n1)))
         | "F" ->
           let path = next s in
           let f = p_frame s in
           (match W.frame_digest f with
            | None -> "HANG0"
            | Some _ ->
              let f' = (match path with
                  | "mem" -> Some (Some (W.view_frame f))
                  | "tcp" -> Some (W.json_rt_frame f)
                  | _ -> W.ug_rt_frame f) in
              (match f' with
               | None -> "HANG0"
               | Some None -> "ERR"
               | Some (Some f') ->
                 (match W.same_frame_hash f f' with
                  | None -> "HANG1"
                  | Some h -> result (fun () -> o_frame f'; tok ("h" ^ bit h)))))
         | "C" ->
           let f = p_frame s in expect s "|";
           let g = p_frame s in
           (match W.same_frame_hash f g with
            | None -> "HANG"
            | Some h -> "same" ^ bit h)
         | "R" ->
           let _path = next s in
           let st = p_store s in expect s "|";
           let l = (match p_list (fun s -> let h = p_str s in
                                   match p_feventptr s with
                                   | Some fe -> (match fe.W.fe_core with
                                       | Some e -> (h, (fe, e))
                                       | None -> failwith "C15 R: frame event without core")
                                   | None -> failwith "C15 R: nil frame event") s with
                    | Some l -> l | None -> []) in
           (match W.insert_frame_events st (zi 0) l with
            | None -> "ERR"
            | Some ((_, _), outl) ->
              result (fun () ->
                  Stdlib.List.iter (fun ((e : W.event), _) ->
                      let b = e.W.e_body in
                      o_int b.W.b_cid; o_int b.W.b_opcid; o_int b.W.b_spi; o_int b.W.b_opi;
                      o_int e.W.e_topo; o_optint e.W.e_round; o_optint e.W.e_lamport) outl))
         | "T" ->
           let ok b = if b then "ok" else "bad" in
           (match next s with
            | "itx" -> ok (W.itx_text_ok (p_itx s))
            | "event" -> ok (W.event_text_ok (p_event s))
            | "frame" -> ok (W.frame_text_ok (p_frame s))
            | k -> failwith ("C15 T: unknown kind " ^ k))
         | k -> failwith ("C15: unknown kind " ^ k))
      with Failure m -> "RUNNER-FAILURE " ^ m
    in
    if s.toks <> [] && not (Stdlib.String.length model > 14 && Stdlib.String.sub model 0 14 = "RUNNER-FAILURE")
    then diff "C15" short impl ("RUNNER-FAILURE trailing input tokens: " ^ Stdlib.String.concat " " s.toks)
    else check "C15" short impl model;
    true
  | _ -> false
