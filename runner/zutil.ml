(* Trusted glue: conversions between OCaml ints/strings and the extracted
   inductive numbers. *)
open Datatypes
open BinNums
open BinInt

let rec pos_of_int (n : int) : positive =
  if n = 1 then Coq_xH
  else if n land 1 = 0 then Coq_xO (pos_of_int (n lsr 1))
  else Coq_xI (pos_of_int (n lsr 1))

let z_of_int (n : int) : coq_Z =
  if n = 0 then Z0 else if n > 0 then Zpos (pos_of_int n)
  else if n = min_int then failwith "min_int" else Zneg (pos_of_int (- n))

let rec int_of_pos (p : positive) : int =
  match p with Coq_xH -> 1 | Coq_xO q -> 2 * int_of_pos q | Coq_xI q -> 2 * int_of_pos q + 1

let int_of_z (x : coq_Z) : int =
  match x with Z0 -> 0 | Zpos p -> int_of_pos p | Zneg p -> - (int_of_pos p)

let rec nat_of_int (n : int) : nat = if n <= 0 then O else S (nat_of_int (n - 1))
let rec int_of_nat (n : nat) : int = match n with O -> 0 | S m -> 1 + int_of_nat m

(* decimal strings of arbitrary size (int64 extremes do not fit OCaml's 63-bit int) *)
let z_of_string (s : string) : coq_Z =
  let neg = Stdlib.String.length s > 0 && Stdlib.String.get s 0 = '-' in
  let start = if neg || (Stdlib.String.length s > 0 && Stdlib.String.get s 0 = '+') then 1 else 0 in
  let ten = z_of_int 10 in
  let acc = ref Z0 in
  for i = start to Stdlib.String.length s - 1 do
    let d = Char.code (Stdlib.String.get s i) - 48 in
    if d < 0 || d > 9 then failwith ("bad number " ^ s);
    acc := Z.add (Z.mul !acc ten) (z_of_int d)
  done;
  if neg then Z.opp !acc else !acc

let string_of_z (x : coq_Z) : string =
  (* via repeated division by 10 *)
  let ten = z_of_int 10 in
  let rec go (p : coq_Z) (acc : string) =
    match p with
    | Z0 -> if acc = "" then "0" else acc
    | _ ->
      let q = Z.div p ten and r = Z.modulo p ten in
      go q (string_of_int (int_of_z r) ^ acc)
  in
  match x with
  | Z0 -> "0"
  | Zpos _ -> go x ""
  | Zneg p -> "-" ^ go (Zpos p) ""

let split (s : string) : string list =
  Stdlib.List.filter (fun t -> t <> "") (Stdlib.String.split_on_char ' ' s)

let b2i b = if b then 1 else 0
